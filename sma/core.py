"""Verdict protocol shared by all checks (DESIGN.md section 1.8)."""
from __future__ import annotations

import json
import os
import re
import sys
import time
import traceback
from dataclasses import dataclass, field
from typing import Callable, Optional

from .front import AnalysisError, Program, repo_root

VERIF = os.path.dirname(os.path.dirname(os.path.abspath(__file__)))

HOLDS, REFUTED, UNDECIDED = "HOLDS", "REFUTED", "UNDECIDED"


@dataclass
class Obligation:
    rule: str  # short rule id, e.g. "R1-coverage"
    instance: str  # what it was instantiated on (human readable)
    verdict: str
    construct: str = ""  # file:line qualified function / statement text
    detail: str = ""
    key: str = ""  # stable key (rule + construct, no line numbers) for known findings
    nontrivial: bool = True  # involves at least one construct of /repo

    def as_dict(self) -> dict:
        return {
            "rule": self.rule,
            "instance": self.instance,
            "verdict": self.verdict,
            "construct": self.construct,
            "detail": self.detail,
            "key": self.key,
        }


class Report:
    """Collects obligations for one property."""

    def __init__(self, pid: str, tier: str, prog: Program):
        self.pid = pid
        self.tier = tier
        self.prog = prog
        self.obs: list[Obligation] = []
        self.analysed: dict = {}  # free-form: functions, call sites, configs, ...
        self.floors: list[tuple[str, int, int]] = []  # (what, measured, floor)
        self.notes: list[str] = []
        self.assumptions: list[str] = []
        self.trusted: list[str] = []

    # -- recording
    def holds(self, rule, instance, construct="", detail="", nontrivial=True):
        self.obs.append(
            Obligation(rule, instance, HOLDS, construct, detail, "", nontrivial)
        )

    def refuted(self, rule, instance, construct, detail, key=None):
        k = key or f"{rule}|{_strip_line(construct)}|{instance}"
        self.obs.append(Obligation(rule, instance, REFUTED, construct, detail, k))

    def undecided(self, rule, instance, construct="", detail=""):
        self.obs.append(Obligation(rule, instance, UNDECIDED, construct, detail))

    def check(self, cond: bool, rule, instance, construct="", detail="", key=None):
        if cond:
            self.holds(rule, instance, construct)
        else:
            self.refuted(rule, instance, construct, detail, key)
        return cond

    def floor(self, what: str, measured: int, floor: int):
        """Vacuity floor: fewer instances than confirmed by hand => analysis error."""
        self.floors.append((what, measured, floor))

    def note(self, s: str):
        self.notes.append(s)


def _strip_line(construct: str) -> str:
    return re.sub(r":\d+", "", construct)


# ------------------------------------------------------------ known findings
def load_known() -> list[dict]:
    path = os.path.join(VERIF, "known_findings.jsonl")
    out = []
    if os.path.exists(path):
        with open(path) as fh:
            for line in fh:
                line = line.strip()
                if line and not line.startswith("#"):
                    out.append(json.loads(line))
    return out


def is_known(pid: str, ob: Obligation, known: list[dict]) -> Optional[dict]:
    for k in known:
        if k.get("status") != "known":
            continue  # a "fixed" entry suppresses nothing
        if pid in k.get("properties", [k.get("property")]) and k.get("key") == ob.key:
            return k
    return None


# ------------------------------------------------------------------- running
LEVELS: dict[str, str] = {}  # pid -> evidence level, filled by checks registry


def run_check(
    pid: str,
    tier: str,
    fn: Callable[[Report], None],
    level: str,
    rule_text: str,
    explanation: str,
    checker_cmd: str,
    replay_only: Optional[str] = None,
) -> int:
    t0 = time.time()
    seed = int(os.environ.get("VERIF_SEED", "0") or 0)
    evid_dir = os.environ.get("SMA_EVIDENCE_DIR") or os.path.join(VERIF, "evidence")
    evid_path = os.path.join(evid_dir, f"{pid}.json")
    os.makedirs(os.path.dirname(evid_path), exist_ok=True)
    status = "ok"
    err = ""
    rep = None
    try:
        prog = Program()
        rep = Report(pid, tier, prog)
        fn(rep)
        for what, measured, floor in rep.floors:
            if measured < floor:
                raise AnalysisError(
                    f"vacuity floor: {what}: measured {measured} < confirmed {floor}"
                )
        und = [o for o in rep.obs if o.verdict == UNDECIDED]
        if und:
            raise AnalysisError(
                "undecided obligation(s): "
                + "; ".join(f"{o.rule} [{o.instance}] {o.detail}" for o in und[:5])
            )
        if not rep.obs:
            raise AnalysisError("no obligations generated")
    except AnalysisError as e:
        status, err = "analysis-error", str(e)
    except Exception as e:  # a traceback is an analysis error, never a violation
        status = "analysis-error"
        err = f"{type(e).__name__}: {e}\n" + traceback.format_exc(limit=12)

    known = load_known()
    refuted = [o for o in (rep.obs if rep else []) if o.verdict == REFUTED]
    if replay_only is not None:
        refuted = [o for o in refuted if o.key == replay_only]
    new, listed = [], []
    for o in refuted:
        (listed if is_known(pid, o, known) else new).append(o)

    # ---- evidence
    obs = rep.obs if rep else []
    nontriv = {(o.rule, o.instance) for o in obs if o.nontrivial}
    samples = [o.as_dict() for o in (refuted + [o for o in obs if o.nontrivial])[:12]]
    coverage = {
        "evaluations": len(obs),
        "distinct_nontrivial": len(nontriv),
        "rule": rule_text,
        "samples": samples or [{"note": "no obligation generated"}],
        "obligations": len(obs),
        "discharged": sum(1 for o in obs if o.verdict == HOLDS),
        "checker_cmd": checker_cmd,
        "trusted_base": (rep.trusted if rep else []),
        "explanation": explanation,
        "exhaustive": status == "ok",
        "analysed": (rep.analysed if rep else {}),
        "floors": [
            {"what": w, "measured": m, "floor": f} for w, m, f in (rep.floors if rep else [])
        ],
        "rules": _by_rule(obs),
        "status": status,
        "repo_digest": (rep.prog.digest() if rep else ""),
        "repo_root": repo_root(),
        "notes": (rep.notes if rep else []),
        "refuted": [o.as_dict() for o in refuted],
    }
    if err:
        coverage["analysis_error"] = err
    evidence = {
        "property_id": pid,
        "tier": tier,
        "seed": seed,
        "level": level,
        "coverage": coverage,
        "assumptions": (rep.assumptions if rep else []),
        "wall_s": round(time.time() - t0, 3),
        "violations": len(new),
    }
    with open(evid_path, "w") as fh:
        json.dump(evidence, fh, indent=1, default=str)

    # ---- output
    print(
        f"[{pid}/{tier}] repo={repo_root()} obligations={len(obs)} "
        f"holds={coverage['discharged']} refuted={len(refuted)} "
        f"known={len(listed)} status={status} wall={evidence['wall_s']}s"
    )
    for r, c in coverage["rules"].items():
        print(f"   rule {r}: {c}")
    if rep:
        for k, v in rep.analysed.items():
            if isinstance(v, (int, str)):
                print(f"   analysed {k}: {v}")
    for o in listed:
        print(f"KNOWN-FINDING: property={pid} {o.rule} {o.instance} at {o.construct}: {o.detail}")
    if status != "ok":
        print(f"ANALYSIS-ERROR property={pid} {err}")
        return 2
    if new:
        rdir = os.path.join(evid_dir, "replay")
        os.makedirs(rdir, exist_ok=True)
        if len(new) > 8:
            print(f"  ({len(new)} refuted obligations; the first 8 are listed, all are in the evidence file)")
        for i, o in enumerate(new[:8]):
            rp = os.path.join(rdir, f"{pid}-{i}.json")
            with open(rp, "w") as fh:
                json.dump(
                    {"property": pid, "tier": tier, "repo": repo_root(), **o.as_dict()},
                    fh,
                    indent=1,
                )
            print(f"  REFUTED {o.rule} [{o.instance}] at {o.construct}: {o.detail[:900]}")
            print(f"VIOLATION property={pid} replay={rp}")
        return 1
    return 0


def _by_rule(obs) -> dict:
    out: dict = {}
    for o in obs:
        d = out.setdefault(o.rule, {"HOLDS": 0, "REFUTED": 0, "UNDECIDED": 0})
        d[o.verdict] += 1
    return out


def fail_closed(stream=sys.stdout):  # pragma: no cover
    print("ANALYSIS-ERROR", file=stream)
    return 2
