"""EXPR - term IR, position-wise canonical form and rational-function normal form.

Terms are nested tuples (hashable):

  ('c', Fraction)                      numeric constant
  ('inf',)                             +infinity
  ('s', name)                          scalar symbol (also length-1 vectors)
  ('v', name, link)                    segment vector of `link` (length N_link)
  ('w', name, link, set)               vector indexed by the members of index set `set`
  ('add', a, b) ('mul', a, b) ('div', a, b) ('neg', a) ('pow', a, b)
  ('fn', 'exp'|'log', a)
  ('min', a, b) ('max', a, b)
  ('ite', c, a, b)  ('cmp', op, a, b)
  ('vcat', (items...))
  ('idx', t, k) ('slice', t, lo, hi)
  ('upd', t, k, val)                   functional update of position k (0 or -1)
  ('idxset', t, set) ('updset', t, set, val)
  ('sum', t)
  ('fam', domain, body)                family vector over the members of `domain`

Vectors are canonicalised *position-wise* (`at`): a segment vector is compared at
the position classes first / interior / last (or the only position when N == 1),
a family vector at its generic member.  Scalars are normalised to rational
functions over opaque atoms; equality is decided by cross-multiplication.
"""
from __future__ import annotations

from fractions import Fraction
from typing import Optional

from .front import AnalysisError


class ShapeError(Exception):
    """Lengths of element-wise operands do not agree (a finding, not an analysis error)."""


# ----------------------------------------------------------------- builders
def C(x) -> tuple:
    if isinstance(x, bool):
        raise AnalysisError("boolean used as number")
    if isinstance(x, float):
        if x == float("inf"):
            return ("inf",)
        if x == float("-inf"):
            return ("neg", ("inf",))
        return ("c", Fraction(str(x)))
    return ("c", Fraction(x))


ZERO, ONE = C(0), C(1)
INF = ("inf",)


def S(name):
    return ("s", name)


def V(name, link):
    return ("v", name, link)


def add(a, b):
    return ("add", a, b)


def sub(a, b):
    return ("add", a, ("neg", b))


def mul(a, b):
    return ("mul", a, b)


def div(a, b):
    return ("div", a, b)


def neg(a):
    return ("neg", a)


def pow_(a, b):
    return ("pow", a, b)


def fn(name, a):
    return ("fn", name, a)


def mn(a, b):
    return ("min", a, b)


def mx(a, b):
    return ("max", a, b)


def vcat(*items):
    return ("vcat", tuple(items))


def idx(t, k):
    return ("idx", t, k)


def slc(t, lo, hi):
    return ("slice", t, lo, hi)


def is_term(x) -> bool:
    return isinstance(x, tuple) and len(x) >= 1 and isinstance(x[0], str)


# -------------------------------------------------------------------- shapes
class Env:
    """Number of segments per link: 1 / a concrete int / None = abstract N >= 2.
    (legacy: True means 1, False means abstract)"""

    def __init__(self, n1: Optional[dict] = None):
        self.n1 = dict(n1 or {})

    def nseg(self, link):
        v = self.n1.get(link)
        if v is True:
            return 1
        if v is False or v is None:
            return None
        return int(v)

    def is_n1(self, link) -> bool:
        return self.nseg(link) == 1


SC = ("sc",)


def seglen(shape, env: Env):
    """concrete length if known else None"""
    if shape == SC:
        return 1
    if shape[0] == "tuple":
        return shape[1]
    if shape[0] == "seg":
        _, link, a, b = shape
        if b == 0:
            return a
        n = env.nseg(link)
        if n is not None:
            return a + b * n
        return None
    return None


def _norm_shape(shape, env: Env):
    if shape[0] == "seg":
        _, link, a, b = shape
        n = env.nseg(link)
        if n is not None and b != 0:
            a, b = a + b * n, 0
        if b == 0:
            if a == 1:
                return SC
            if a < 1:
                raise ShapeError(f"empty vector (length {a})")
            return ("tuple", a)
    return shape


def shape(t, env: Env):
    k = t[0]
    if k in ("c", "inf", "s", "sa"):
        return SC
    if k == "v":
        return _norm_shape(("seg", t[2], 0, 1), env)
    if k == "w":
        return ("set", t[3])
    if k in ("add", "mul", "div", "pow", "min", "max"):
        return _bcast(shape(t[1], env), shape(t[2], env), t)
    if k == "cmp":
        return _bcast(shape(t[2], env), shape(t[3], env), t)
    if k in ("neg",):
        return shape(t[1], env)
    if k == "fn":
        return shape(t[2], env)
    if k == "ite":
        s = _bcast(shape(t[2], env), shape(t[3], env), t)
        return _bcast(shape(t[1], env), s, t)
    if k == "vcat":
        items = t[1]
        if len(items) == 0:
            return ("tuple", 0)
        if len(items) == 1:
            return shape(items[0], env)
        link, a, b = None, 0, 0
        for it in items:
            s = shape(it, env)
            if s == SC:
                a += 1
            elif s[0] == "tuple":
                a += s[1]
            elif s[0] == "seg":
                if link is not None and s[1] != link:
                    raise AnalysisError("vcat of segments of different links")
                link = s[1]
                a += s[2]
                b += s[3]
            else:
                raise AnalysisError(f"vcat of several items with a {s[0]} item")
        if link is None:
            if a == 1:
                return SC
            return ("tuple", a)
        return _norm_shape(("seg", link, a, b), env)
    if k == "idx":
        s = shape(t[1], env)
        if s == SC:
            if t[2] not in (0, -1):
                raise ShapeError(f"index {t[2]} into a length-1 value")
            return SC
        return SC
    if k == "slice":
        s = shape(t[1], env)
        lo, hi = t[2] or 0, t[3] or 0
        if lo < 0 or hi > 0:
            raise AnalysisError(f"unsupported slice bounds {t[2]}:{t[3]}")
        if s == SC:
            n = 1 - lo + hi
            if n == 1:
                return SC
            raise ShapeError(f"slice [{t[2]}:{t[3]}] of a length-1 value is empty")
        if s[0] == "seg":
            return _norm_shape(("seg", s[1], s[2] - lo + hi, s[3]), env)
        if s[0] == "tuple":
            n = s[1] - lo + hi
            if n < 1:
                raise ShapeError(f"slice [{t[2]}:{t[3]}] of a length-{s[1]} vector is empty")
            return SC if n == 1 else ("tuple", n)
        raise AnalysisError(f"slice of {s[0]}")
    if k == "upd":
        return shape(t[1], env)
    if k == "updset":
        return shape(t[1], env)
    if k == "idxset":
        shape(t[1], env)
        return ("set", t[2])
    if k == "sum":
        return SC
    if k == "fam":
        sb = shape(t[2], env)
        if sb != SC:
            raise ShapeError(
                f"each member of the family over {t[1]} contributes a whole vector ({sb}) "
                f"where the model has one value per link: {fmt(t[2], 80)}")
        return ("fam", t[1])
    raise AnalysisError(f"shape: unknown term kind {k}")


def _bcast(a, b, t):
    if a == SC:
        return b
    if b == SC:
        return a
    if a == b:
        return a
    raise ShapeError(f"element-wise operation on shapes {a} and {b} in {fmt(t, 120)}")


# ------------------------------------------------------------- position-wise
def positions(sh, env: Env):
    """Canonical position classes of a value of shape `sh`."""
    if sh == SC:
        return [None]
    if sh[0] == "seg":
        _, link, a, b = sh
        if b == 0:
            return [("first", k) for k in range(a)]
        if env.nseg(link) is not None:
            return [("first", k) for k in range(a + b * env.nseg(link))]
        if (a, b) == (0, 1):
            return [("first", 0), ("i", 0), ("last", 0)]
        # shifted vectors: enumerate via first/last only
        return [("first", 0), ("i", 0), ("last", 0)]
    if sh[0] == "tuple":
        return [("first", k) for k in range(sh[1])]
    if sh[0] == "fam":
        return [("mem", sh[1])]
    if sh[0] == "set":
        return [("rank", sh[1], None, None)]
    raise AnalysisError(f"positions of shape {sh}")


def at(t, pos, env: Env):
    """The scalar term denoted by `t` at position `pos` (None for scalars)."""
    k = t[0]
    sh = shape(t, env)
    if sh == SC and k not in ("idx", "vcat", "slice", "upd", "v", "sum", "updset"):
        pos = None
    if k in ("c", "inf", "s", "sa"):
        return t
    if k == "v":
        name, link = t[1], t[2]
        n = env.nseg(link)
        if n == 1:
            if pos is None or pos in (("first", 0), ("last", 0), ("only",)):
                return ("sa", name, link, ("only",))
            raise ShapeError(f"position {pos} of single-segment vector {name}@{link}")
        if pos is None:
            raise AnalysisError(f"vector {name}@{link} used where a scalar is needed")
        if pos[0] in ("rank",):
            raise AnalysisError("segment vector at a set rank")
        if n is not None:
            if pos[0] == "first":
                kk = pos[1]
            elif pos[0] == "last":
                kk = n - 1 + pos[1]
            else:
                raise AnalysisError(f"generic position {pos} of a vector of concrete length")
            if not 0 <= kk < n:
                raise ShapeError(f"index {kk} outside vector {name}@{link} of length {n}")
            return ("sa", name, link, ("first", kk))
        if pos[0] == "first" and pos[1] < 0 or pos[0] == "last" and pos[1] > 0:
            raise ShapeError(f"position {pos} outside vector {name}@{link}")
        return ("sa", name, link, pos)
    if k == "w":
        if pos is None or pos[0] != "rank":
            raise AnalysisError(f"set-indexed vector {t[1]} at {pos}")
        return ("sa", t[1], t[2], pos)
    if k in ("add", "mul", "div", "pow", "min", "max"):
        return (k, at(t[1], pos, env), at(t[2], pos, env))
    if k == "cmp":
        return ("cmp", t[1], at(t[2], pos, env), at(t[3], pos, env))
    if k == "neg":
        return ("neg", at(t[1], pos, env))
    if k == "fn":
        return ("fn", t[1], at(t[2], pos, env))
    if k == "ite":
        return ("ite", at(t[1], pos, env), at(t[2], pos, env), at(t[3], pos, env))
    if k == "idx":
        i = t[2]
        s1 = shape(t[1], env)
        if s1 == SC:
            return at(t[1], None, env)
        return at(t[1], ("first", i) if i >= 0 else ("last", i + 1), env)
    if k == "slice":
        lo, hi = t[2] or 0, t[3] or 0
        s1 = shape(t[1], env)
        if s1 == SC:
            return at(t[1], None, env)
        if pos is None:
            # a length-1 slice of a longer vector
            n = seglen(s1, env)
            if n is not None:
                return at(t[1], ("first", lo), env)
            raise AnalysisError("scalar use of a slice of unknown length")
        n = seglen(s1, env)
        if n is not None and pos[0] == "last":
            return at(t[1], ("first", n - 1 + pos[1] + hi), env)
        if pos[0] in ("first", "i"):
            return at(t[1], (pos[0], pos[1] + lo), env)
        if pos[0] == "last":
            return at(t[1], ("last", pos[1] + hi), env)
        raise AnalysisError(f"slice at {pos}")
    if k == "vcat":
        return _at_vcat(t, pos, env)
    if k == "upd":
        base, kk, val = t[1], t[2], t[3]
        sb = shape(base, env)
        if sb == SC:
            return at(val, None, env)
        hit = _pos_is_index(pos, kk, sb, env)
        if hit is True:
            return at(val, None, env)
        if hit is False:
            return at(base, pos, env)
        raise AnalysisError(f"cannot relate position {pos} to updated index {kk}")
    if k == "updset":
        base, sname, val = t[1], t[2], t[3]
        sb = shape(base, env)
        link = sb[1] if sb != SC and sb[0] == "seg" else None
        p = pos if pos is not None else ("only",)
        inside = at(val, ("rank", sname, link, p), env)
        outside = at(base, pos, env)
        return ("inset", sname, _poskey(p), inside, outside)
    if k == "idxset":
        if pos is None or pos[0] != "rank":
            raise AnalysisError("idxset evaluated at a non-rank position")
        p = pos[3] if len(pos) > 3 else None
        if p is None:
            raise AnalysisError("idxset at an anonymous rank")
        return at(t[1], None if p == ("only",) else p, env)
    if k == "sum":
        s1 = shape(t[1], env)
        if s1 == SC:
            return at(t[1], None, env)
        if s1[0] == "fam":
            return ("sumfam", s1[1], at(t[1], ("mem", s1[1]), env))
        if s1[0] == "tuple":
            acc = at(t[1], ("first", 0), env)
            for kk in range(1, s1[1]):
                acc = ("add", acc, at(t[1], ("first", kk), env))
            return acc
        raise AnalysisError(f"sum over shape {s1} is not modelled")
    if k == "fam":
        if pos is None or pos[0] != "mem" or pos[1] != t[1]:
            raise AnalysisError(f"family over {t[1]} evaluated at {pos}")
        return at(t[2], None, env)
    raise AnalysisError(f"at: unknown term kind {k}")


def _poskey(p):
    return p


def _pos_is_index(pos, kk, sb, env):
    """Does canonical position `pos` of a vector of shape `sb` denote index kk (0/-1)?
    True / False / None (cannot tell)."""
    n = seglen(sb, env)
    if pos is None or pos == ("only",):
        return True if (n == 1) else None
    if n is not None:
        # concrete length: resolve both to absolute indices
        p = _abs(pos, n)
        q = kk if kk >= 0 else n + kk
        return None if p is None else p == q
    if pos[0] == "i":
        # generic interior index (1 <= i <= N-2) with offset
        if pos[1] == 0:
            return False
        return None
    if pos[0] == "first":
        if kk >= 0:
            return pos[1] == kk
        return None if pos[1] >= 1 else False  # first+0 != last when N >= 2
    if pos[0] == "last":
        if kk < 0:
            return pos[1] == kk + 1
        return None if pos[1] <= -1 else False
    return None


def _abs(pos, n):
    if pos[0] == "first":
        return pos[1]
    if pos[0] == "last":
        return n - 1 + pos[1]
    return None


def _at_vcat(t, pos, env):
    items = t[1]
    if len(items) == 1:
        return at(items[0], pos, env)
    shapes = [shape(it, env) for it in items]
    if pos is None:
        total = shape(t, env)
        if total == SC:
            for it, s in zip(items, shapes):
                return at(it, None, env)
        raise AnalysisError("vector concatenation used where a scalar is needed")
    lens = []
    for s in shapes:
        if s == SC:
            lens.append((1, 0))
        elif s[0] == "tuple":
            lens.append((s[1], 0))
        elif s[0] == "seg":
            lens.append((s[2], s[3]))
        else:
            raise AnalysisError(f"vcat item of shape {s}")
    if pos[0] == "first":
        k = pos[1]
        for it, (a, b) in zip(items, lens):
            if b == 0:
                if k < a:
                    return at(it, None if a == 1 and shape(it, env) == SC else ("first", k), env)
                k -= a
            else:
                if a + 2 * b > k:  # N >= 2
                    return at(it, ("first", k), env)
                raise AnalysisError("ambiguous front position in vcat")
        raise ShapeError("position beyond the end of a concatenation")
    if pos[0] == "last":
        k = -pos[1]
        for it, (a, b) in zip(reversed(items), reversed(lens)):
            if b == 0:
                if k < a:
                    return at(it, None if a == 1 and shape(it, env) == SC else ("last", -k), env)
                k -= a
            else:
                if a + 2 * b > k:
                    return at(it, ("last", -k), env)
                raise AnalysisError("ambiguous back position in vcat")
        raise ShapeError("position before the start of a concatenation")
    if pos[0] == "i":
        before = 0
        for it, (a, b) in zip(items, lens):
            if b == 0:
                before += a
            elif b == 1:
                return at(it, ("i", pos[1] - before), env)
            else:
                raise AnalysisError("vcat item longer than one link")
        raise AnalysisError("generic position in a concatenation of scalars")
    raise AnalysisError(f"vcat at {pos}")


# ----------------------------------------------- rational functions over atoms
class Atoms:
    def __init__(self):
        self.items: list = []  # descriptors
        self.index: dict = {}  # hashable key -> id (syntactic fast path)

    def intern(self, desc) -> int:
        key = _desc_key(desc)
        if key in self.index:
            return self.index[key]
        # semantic search among atoms of the same kind
        for i, d in enumerate(self.items):
            if d[0] == desc[0] and _desc_eq(d, desc, self):
                self.index[key] = i
                return i
        self.items.append(desc)
        self.index[key] = len(self.items) - 1
        return len(self.items) - 1


def _desc_key(desc):
    def k(x):
        if isinstance(x, RF):
            return ("RF", tuple(sorted(x.num.items())), tuple(sorted(x.den.items())))
        if isinstance(x, (list, tuple)):
            return tuple(k(y) for y in x)
        return x

    return k(desc)


def _desc_eq(a, b, atoms) -> bool:
    if a[0] != b[0] or len(a) != len(b):
        return False
    if a[0] in ("min", "max"):
        xs, ys = list(a[1]), list(b[1])
        if len(xs) != len(ys):
            return False
        for x in xs:
            for j, y in enumerate(ys):
                if x.equals(y):
                    del ys[j]
                    break
            else:
                return False
        return True
    for x, y in zip(a[1:], b[1:]):
        if isinstance(x, RF) and isinstance(y, RF):
            if not x.equals(y):
                return False
        elif isinstance(x, RF) or isinstance(y, RF):
            return False
        elif x != y:
            return False
    return True


def _pmul(p, q):
    out: dict = {}
    for m1, c1 in p.items():
        for m2, c2 in q.items():
            m = _mmul(m1, m2)
            c = out.get(m, 0) + c1 * c2
            if c == 0:
                out.pop(m, None)
            else:
                out[m] = c
    return out


def _mmul(m1, m2):
    if not m1:
        return m2
    if not m2:
        return m1
    d = dict(m1)
    for a, e in m2:
        d[a] = d.get(a, 0) + e
    return tuple(sorted((a, e) for a, e in d.items() if e != 0))


def _padd(p, q, s=1):
    out = dict(p)
    for m, c in q.items():
        v = out.get(m, 0) + s * c
        if v == 0:
            out.pop(m, None)
        else:
            out[m] = v
    return out


class RF:
    """num/den, polynomials {monomial: Fraction}; monomial = sorted ((atom, exp),...)"""

    __slots__ = ("num", "den")

    def __init__(self, num, den=None):
        self.num = num
        self.den = den if den is not None else {(): Fraction(1)}
        self._reduce()

    def _reduce(self):
        if not self.num:
            self.den = {(): Fraction(1)}
            return
        if not self.den:
            raise ZeroDivisionError("division by the zero polynomial")
        # common monomial content
        common = None
        for m in list(self.num) + list(self.den):
            d = dict(m)
            if common is None:
                common = d
            else:
                common = {a: min(e, d[a]) for a, e in common.items() if a in d}
            if not common:
                break
        if common:
            inv = tuple(sorted((a, -e) for a, e in common.items()))
            self.num = {_mmul(m, inv): c for m, c in self.num.items()}
            self.den = {_mmul(m, inv): c for m, c in self.den.items()}
        # identical polynomials up to a constant factor
        if len(self.num) == len(self.den) and set(self.num) == set(self.den):
            ms = list(self.num)
            r = self.num[ms[0]] / self.den[ms[0]]
            if all(self.num[m] == r * self.den[m] for m in ms):
                self.num, self.den = {(): r}, {(): Fraction(1)}
                return
        # normalise the leading coefficient of the denominator to 1
        lead = self.den[min(self.den)]
        if lead != 1:
            self.num = {m: c / lead for m, c in self.num.items()}
            self.den = {m: c / lead for m, c in self.den.items()}

    # arithmetic
    def __add__(self, o):
        if self.den == o.den:
            return RF(_padd(self.num, o.num), self.den)
        return RF(_padd(_pmul(self.num, o.den), _pmul(o.num, self.den)), _pmul(self.den, o.den))

    def __neg__(self):
        return RF({m: -c for m, c in self.num.items()}, self.den)

    def __sub__(self, o):
        return self + (-o)

    def __mul__(self, o):
        return RF(_pmul(self.num, o.num), _pmul(self.den, o.den))

    def __truediv__(self, o):
        if not o.num:
            raise ZeroDivisionError("division by zero term")
        return RF(_pmul(self.num, o.den), _pmul(self.den, o.num))

    def equals(self, o) -> bool:
        return not _padd(_pmul(self.num, o.den), _pmul(o.num, self.den), -1)

    def is_zero(self) -> bool:
        return not self.num

    def const(self) -> Optional[Fraction]:
        if not self.num:
            return Fraction(0)
        if set(self.num) == {()} and set(self.den) == {()}:
            return self.num[()] / self.den[()]
        return None

    def atoms(self) -> set:
        out = set()
        for p in (self.num, self.den):
            for m in p:
                for a, _ in m:
                    out.add(a)
        return out

    def single_atom(self) -> Optional[int]:
        if (
            len(self.num) == 1
            and set(self.den) == {()}
            and self.den[()] == 1
        ):
            (m, c), = self.num.items()
            if c == 1 and len(m) == 1 and m[0][1] == 1:
                return m[0][0]
        return None


def rconst(x) -> RF:
    x = Fraction(x)
    return RF({(): x} if x != 0 else {})


def ratom(a: int) -> RF:
    return RF({((a, 1),): Fraction(1)})


class Normalizer:
    """scalar term -> RF over an atom table, with sign facts for the few rules that
    need them (+inf absorption)."""

    def __init__(self, facts: "Facts" = None):
        self.assumed: list = []  # (op, RF diff, truth): path assumptions on comparisons
        self.atoms = Atoms()
        self.facts = facts or Facts()
        self.facts.nz = self
        self._memo: dict = {}

    # --- atoms
    def sym(self, key) -> RF:
        return ratom(self.atoms.intern(("sym", key)))

    def inf(self) -> RF:
        return ratom(self.atoms.intern(("inf",)))

    def desc(self, a: int):
        return self.atoms.items[a]

    def rf(self, t) -> RF:
        if t in self._memo:
            return self._memo[t]
        r = self._rf(t)
        self._memo[t] = r
        return r

    def _rf(self, t) -> RF:
        k = t[0]
        if k == "c":
            return rconst(t[1])
        if k == "inf":
            return self.inf()
        if k == "s":
            return self.sym(("s", t[1]))
        if k == "sa":
            return self.sym(("sa",) + tuple(t[1:]))
        if k == "add":
            return self.rf(t[1]) + self.rf(t[2])
        if k == "neg":
            return -self.rf(t[1])
        if k == "mul":
            return self.rf(t[1]) * self.rf(t[2])
        if k == "div":
            d = self.rf(t[2])
            if d.is_zero():
                raise AnalysisError(f"division by a term that is identically zero: {fmt(t)}")
            return self.rf(t[1]) / d
        if k == "pow":
            b = self.rf(t[1])
            e = self.rf(t[2])
            ec = e.const()
            if ec is not None and ec.denominator == 1 and -6 <= ec <= 6:
                n = int(ec)
                out = rconst(1)
                for _ in range(abs(n)):
                    out = out * b
                return out if n >= 0 else rconst(1) / out
            return ratom(self.atoms.intern(("fn", "pow", b, e)))
        if k == "fn":
            a = self.rf(t[2])
            if t[1] == "exp" and a.is_zero():
                return rconst(1)
            if t[1] == "log" and a.const() == 1:
                return rconst(0)
            return ratom(self.atoms.intern(("fn", t[1], a)))
        if k in ("min", "max"):
            return self._minmax(k, [self.rf(t[1]), self.rf(t[2])])
        if k == "ite":
            a, b = self.rf(t[2]), self.rf(t[3])
            if a.equals(b):
                return a
            if t[1][0] == "cmp" and self.assumed:
                tv = self.truth_of(t[1])
                if tv is not None:
                    return a if tv else b
            c = self.rf(t[1])
            return ratom(self.atoms.intern(("ite", c, a, b)))
        if k == "cmp":
            op, a, b = t[1], self.rf(t[2]), self.rf(t[3])
            if op in ("gt", "ge"):
                op, a, b = {"gt": "lt", "ge": "le"}[op], b, a
            return ratom(self.atoms.intern(("cmp", op, a - b)))
        if k == "inset":
            a, b = self.rf(t[3]), self.rf(t[4])
            if a.equals(b):
                return a
            return ratom(self.atoms.intern(("inset", t[1], t[2], a, b)))
        if k == "sumfam":
            return self._sumfam(t[1], self.rf(t[2]))
        raise AnalysisError(f"cannot normalise non-scalar term {k}: {fmt(t)}")

    # --- sums over families are linear: member-independent factors move out
    def _member_dependent(self, a: int) -> bool:
        d = self.desc(a)
        if d[0] == "sym":
            key = d[1]
            if key[0] == "s":
                role = key[1].rpartition(".")[0]
                return role.endswith("*") or role == "mu"
            if key[0] == "sa":
                return str(key[2]).endswith("*") or str(key[2]) == "mu"
            return False
        if d[0] == "inf":
            return False
        for x in d[1:]:
            if isinstance(x, RF):
                if any(self._member_dependent(b) for b in x.atoms()):
                    return True
            elif isinstance(x, tuple):
                for y in x:
                    if isinstance(y, RF) and any(self._member_dependent(b) for b in y.atoms()):
                        return True
        return False

    def _sumfam(self, domain, body: RF) -> RF:
        dep = {a: self._member_dependent(a) for a in body.atoms()}
        if any(dep.get(a) for m in body.den for a, _ in m):
            return ratom(self.atoms.intern(("sumfam", domain, body)))
        groups: dict = {}
        for m, c in body.num.items():
            dm = tuple((a, e) for a, e in m if dep[a])
            im = tuple((a, e) for a, e in m if not dep[a])
            groups.setdefault(dm, {})
            groups[dm][im] = groups[dm].get(im, 0) + c
        total = RF({})
        for dm, poly in groups.items():
            atom = ratom(self.atoms.intern(("sumfam", domain, RF({dm: Fraction(1)}))))
            total = total + RF(poly) * atom
        return total / RF(dict(body.den))

    def _minmax(self, k, args) -> RF:
        flat = []
        for a in args:
            sa = a.single_atom()
            if sa is not None and self.desc(sa)[0] == k:
                flat.extend(self.desc(sa)[1])
            else:
                flat.append(a)
        # +inf absorption
        keep = []
        for a in flat:
            s = self._inf_sign(a)
            if s == 0:
                keep.append(a)
            elif (k == "min" and s > 0) or (k == "max" and s < 0):
                continue  # neutral element
            else:
                return a  # absorbing
        if not keep:
            return flat[0]
        # constants fold
        consts = [a.const() for a in keep if a.const() is not None]
        rest = [a for a in keep if a.const() is None]
        if consts:
            c = min(consts) if k == "min" else max(consts)
            # a constant bound that is implied by a sign fact folds away
            rest2 = []
            decided = None
            for a in rest:
                sg = self.facts.sign(a - rconst(c))
                if k == "min":
                    if sg in (">=0", ">0", "0"):  # a >= c : a is redundant
                        continue
                    if sg in ("<=0", "<0"):  # a <= c : c is redundant
                        decided = True
                        rest2.append(a)
                        continue
                else:
                    if sg in ("<=0", "<0", "0"):
                        continue
                    if sg in (">=0", ">0"):
                        decided = True
                        rest2.append(a)
                        continue
                rest2.append(a)
            rest = rest2
            if not decided:
                rest.append(rconst(c))
        # dedupe
        uniq = []
        for a in rest:
            if not any(a.equals(u) for u in uniq):
                uniq.append(a)
        if len(uniq) == 1:
            return uniq[0]
        uniq.sort(key=lambda r: repr(_desc_key(("x", r))))
        return ratom(self.atoms.intern((k, tuple(uniq))))

    def _inf_sign(self, a: RF) -> int:
        """+1 if a is +inf (positive multiple of inf), -1 if -inf, 0 if finite."""
        infa = self.atoms.index.get(("inf",))
        if infa is None or infa not in a.atoms():
            return 0
        # a = P * inf / den  with inf in every monomial of num exactly once
        co = {}
        for m, c in a.num.items():
            d = dict(m)
            if d.get(infa, 0) != 1:
                raise AnalysisError("non-linear use of infinity")
            del d[infa]
            co[tuple(sorted(d.items()))] = c
        for m in a.den:
            if infa in dict(m):
                raise AnalysisError("infinity in a denominator")
        s = self.facts.sign(RF(co, a.den))
        if s == ">0":
            return 1
        if s == "<0":
            return -1
        raise AnalysisError(f"cannot determine the sign of the coefficient of infinity")

    # --- path assumptions on comparisons
    def _canon_cmp(self, t):
        op, a, b = t[1], self.rf(t[2]), self.rf(t[3])
        if op in ("gt", "ge"):
            op, a, b = {"gt": "lt", "ge": "le"}[op], b, a
        return op, a - b

    def assume(self, cmp_term, truth: bool) -> None:
        if cmp_term[0] != "cmp":
            return
        op, d = self._canon_cmp(cmp_term)
        self.assumed.append((op, d, bool(truth)))
        if not hasattr(self, "_assumed_terms"):
            self._assumed_terms = []
        self._assumed_terms.append((cmp_term, bool(truth)))
        self._memo.clear()

    def truth_of(self, cmp_term):
        """truth value of a comparison implied by the assumptions, or None"""
        op, d = self._canon_cmp(cmp_term)
        for op0, d0, t0 in self.assumed:
            same = d.equals(d0)
            opp = d.equals(-d0)
            if not (same or opp):
                continue
            # sign knowledge about d0: lt T: d0<0 ; lt F: d0>=0 ; le T: d0<=0 ; le F: d0>0 ;
            # eq T: d0==0 ; eq F / ne T: d0!=0
            neg = pos = zero = None  # can d0 be negative / positive / zero
            if op0 == "lt":
                neg, pos, zero = (True, False, False) if t0 else (False, True, True)
            elif op0 == "le":
                neg, pos, zero = (True, False, True) if t0 else (False, True, False)
            elif op0 in ("eq", "ne"):
                is_eq = t0 if op0 == "eq" else (not t0)
                neg, pos, zero = (False, False, True) if is_eq else (True, True, False)
            if opp:
                neg, pos = pos, neg
            # now (neg, pos, zero) describe d
            if op == "lt":
                if not pos and not zero:
                    return True
                if not neg:
                    return False
            elif op == "le":
                if not pos:
                    return True
                if not neg and not zero:
                    return False
            elif op == "eq":
                if not neg and not pos:
                    return True
                if not zero:
                    return False
            elif op == "ne":
                if not zero:
                    return True
                if not neg and not pos:
                    return False
        return None

    # --- convenience
    def eq(self, t1, t2) -> bool:
        return self.rf(t1).equals(self.rf(t2))

    def show(self, r: RF) -> str:
        return show_rf(r, self)


# ---------------------------------------------------------------- sign facts
class Facts:
    """Sign knowledge about atoms and about a few polynomials (admissible domain)."""

    def __init__(self):
        self.sym_sign: dict = {}  # predicate over sym key -> sign  (list of (fn, sign))
        self.rules: list = []
        self.poly_facts: list = []  # (term, sign)  resolved lazily
        self.nz: Optional[Normalizer] = None
        self._pf: Optional[list] = None

    def clone(self) -> "Facts":
        f = Facts()
        f.rules = list(self.rules)
        f.poly_facts = list(self.poly_facts)
        return f

    def add_sym_rule(self, pred, sign: str):
        self.rules.append((pred, sign))

    def add_fact(self, term, sign: str):
        self.poly_facts.append((term, sign))
        self._pf = None

    def _facts(self):
        if self._pf is None:
            self._pf = [(self.nz.rf(t), s) for t, s in self.poly_facts]
        return self._pf

    def atom_sign(self, a: int) -> str:
        d = self.nz.desc(a)
        if d[0] == "inf":
            return ">0"
        if d[0] == "sym":
            for pred, s in self.rules:
                if pred(d[1]):
                    return s
            return "?"
        if d[0] == "fn":
            if d[1] == "exp":
                return ">0"
            if d[1] == "pow":
                sb = self.sign(d[2])
                if sb in (">0",):
                    return ">0"
                if sb in (">=0", "0"):
                    se = self.sign(d[3])
                    return ">=0" if se in (">0", ">=0") else "?"
                return "?"
            if d[1] == "log":
                lo, hi = self.interval(d[2])
                if lo is not None and lo >= 1:
                    return ">=0"
                if hi is not None and hi <= 1 and lo is not None and lo > 0:
                    return "<=0"
                return "?"
            return "?"
        if d[0] in ("min", "max"):
            signs = [self.sign(x) for x in d[1]]
            return _minmax_sign(d[0], signs)
        if d[0] == "ite":
            return _join(self.sign(d[2]), self.sign(d[3]))
        if d[0] == "inset":
            return _join(self.sign(d[3]), self.sign(d[4]))
        if d[0] == "sumfam":
            return self.sign(d[2]) if self.sign(d[2]) in (">0", ">=0", "0", "<0", "<=0") else "?"
        return "?"

    def interval(self, r: RF):
        """constant interval [lo, hi] of r if derivable (only min/max of constants)."""
        c = r.const()
        if c is not None:
            return c, c
        a = r.single_atom()
        if a is not None:
            d = self.nz.desc(a)
            if d[0] in ("min", "max"):
                los, his = [], []
                for x in d[1]:
                    lo, hi = self.interval(x)
                    los.append(lo)
                    his.append(hi)
                if d[0] == "min":
                    hi_c = [h for h in his if h is not None]
                    hi = min(hi_c) if hi_c else None
                    lo = None if any(l is None for l in los) else min(los)
                    return lo, hi
                lo_c = [l for l in los if l is not None]
                lo = max(lo_c) if lo_c else None
                hi = None if any(h is None for h in his) else max(his)
                return lo, hi
        return None, None

    def sign(self, r: RF, _depth: int = 0) -> str:
        """one of '0', '>0', '>=0', '<0', '<=0', '?'"""
        if r.is_zero():
            return "0"
        c = r.const()
        if c is not None:
            return ">0" if c > 0 else "<0"
        # exact match with a stated fact (up to a positive constant factor)
        for fr, s in self._facts():
            q = _ratio_const(r, fr)
            if q is not None and q != 0:
                return s if q > 0 else _flip(s)
        sn = self._poly_sign(r.num)
        sd = self._poly_sign(r.den)
        out = _mul_sign(sn, _inv_sign(sd))
        if out != "?" or _depth >= 2:
            return out
        # r = fact * q  with q of known sign
        for fr, s in self._facts():
            if fr.is_zero():
                continue
            try:
                q = r / fr
            except ZeroDivisionError:
                continue
            if len(q.num) + len(q.den) >= len(r.num) + len(r.den):
                continue
            sq = self.sign(q, _depth + 1)
            if sq != "?":
                return _mul_sign(s, sq)
        return "?"

    def _poly_sign(self, p) -> str:
        # a polynomial matching a fact
        for fr, s in self._facts():
            if set(fr.den) == {()}:
                q = _poly_ratio(p, fr.num, fr.den[()])
                if q is not None:
                    return s if q > 0 else _flip(s)
        acc = None
        for m, c in p.items():
            s = ">0" if c > 0 else "<0"
            for a, e in m:
                sa = self.atom_sign(a)
                if e % 2 == 0 and sa in (">0", "<0"):
                    sa = ">0"
                elif e % 2 == 0:
                    sa = ">=0"
                elif e < 0:
                    sa = _inv_sign(sa)
                s = _mul_sign(s, sa)
            acc = s if acc is None else _add_sign(acc, s)
            if acc == "?":
                return "?"
        return acc or "0"


def _ratio_const(a: RF, b: RF):
    """q such that a == q*b for a constant q, else None"""
    if b.is_zero():
        return None
    try:
        r = a / b
    except ZeroDivisionError:
        return None
    return r.const()


def _poly_ratio(p, q, qden):
    if set(p) != set(q) or not p:
        return None
    ms = list(p)
    r = p[ms[0]] / (q[ms[0]] / qden)
    if all(p[m] == r * (q[m] / qden) for m in ms):
        return r
    return None


def _flip(s):
    return {">0": "<0", "<0": ">0", ">=0": "<=0", "<=0": ">=0"}.get(s, s)


def _inv_sign(s):
    return {">0": ">0", "<0": "<0"}.get(s, "?")


def _mul_sign(a, b):
    if a == "0" or b == "0":
        return "0"
    if a == "?" or b == "?":
        return "?"
    pos = {">0": 1, ">=0": 1, "<0": -1, "<=0": -1}
    strict = a in (">0", "<0") and b in (">0", "<0")
    sg = pos[a] * pos[b]
    if sg > 0:
        return ">0" if strict else ">=0"
    return "<0" if strict else "<=0"


def _add_sign(a, b):
    if a == "0":
        return b
    if b == "0":
        return a
    if a == "?" or b == "?":
        return "?"
    pa = a in (">0", ">=0")
    pb = b in (">0", ">=0")
    if pa and pb:
        return ">0" if ">0" in (a, b) else ">=0"
    if not pa and not pb:
        return "<0" if "<0" in (a, b) else "<=0"
    return "?"


def _join(a, b):
    if a == b:
        return a
    nonneg = {"0", ">0", ">=0"}
    nonpos = {"0", "<0", "<=0"}
    if a in nonneg and b in nonneg:
        return ">=0"
    if a in nonpos and b in nonpos:
        return "<=0"
    return "?"


def _minmax_sign(k, signs):
    nonneg = {"0", ">0", ">=0"}
    nonpos = {"0", "<0", "<=0"}
    if k == "min":
        if all(s == ">0" for s in signs):
            return ">0"
        if all(s in nonneg for s in signs):
            return ">=0"
        if any(s == "<0" for s in signs):
            return "<0"
        if any(s in nonpos for s in signs):
            return "<=0"
        return "?"
    if all(s == "<0" for s in signs):
        return "<0"
    if all(s in nonpos for s in signs):
        return "<=0"
    if any(s == ">0" for s in signs):
        return ">0"
    if any(s in nonneg for s in signs):
        return ">=0"
    return "?"


# ------------------------------------------------------------------ printing
def fmt(t, limit: int = 400) -> str:
    s = _fmt(t)
    return s if len(s) <= limit else s[: limit - 3] + "..."


def _fmt(t) -> str:
    if not is_term(t):
        return repr(t)
    k = t[0]
    if k == "c":
        f = t[1]
        return str(f.numerator) if f.denominator == 1 else f"{float(f):g}"
    if k == "inf":
        return "inf"
    if k == "s":
        return str(t[1])
    if k == "v":
        return f"{t[2]}.{t[1]}"
    if k == "w":
        return f"{t[2]}.{t[1]}[{t[3]}]"
    if k == "sa":
        return f"{t[2]}.{t[1]}@{_fpos(t[3])}"
    if k == "add":
        if t[2][0] == "neg":
            return f"({_fmt(t[1])} - {_fmt(t[2][1])})"
        return f"({_fmt(t[1])} + {_fmt(t[2])})"
    if k == "mul":
        return f"{_fmt(t[1])}*{_fmt(t[2])}"
    if k == "div":
        return f"{_fmt(t[1])}/{_fmt(t[2])}"
    if k == "neg":
        return f"-{_fmt(t[1])}"
    if k == "pow":
        return f"{_fmt(t[1])}**{_fmt(t[2])}"
    if k == "fn":
        return f"{t[1]}({_fmt(t[2])})"
    if k in ("min", "max"):
        return f"{k}({_fmt(t[1])}, {_fmt(t[2])})"
    if k == "ite":
        return f"ite({_fmt(t[1])}, {_fmt(t[2])}, {_fmt(t[3])})"
    if k == "cmp":
        return f"({_fmt(t[2])} {t[1]} {_fmt(t[3])})"
    if k == "vcat":
        return "vcat(" + ", ".join(_fmt(x) for x in t[1]) + ")"
    if k == "idx":
        return f"{_fmt(t[1])}[{t[2]}]"
    if k == "slice":
        return f"{_fmt(t[1])}[{'' if t[2] is None else t[2]}:{'' if t[3] is None else t[3]}]"
    if k == "upd":
        return f"upd({_fmt(t[1])}, [{t[2]}] := {_fmt(t[3])})"
    if k == "updset":
        return f"upd({_fmt(t[1])}, [{t[2]}] := {_fmt(t[3])})"
    if k == "idxset":
        return f"{_fmt(t[1])}[{t[2]}]"
    if k == "sum":
        return f"sum({_fmt(t[1])})"
    if k == "fam":
        return f"Fam({t[1]}: {_fmt(t[2])})"
    if k == "sumfam":
        return f"sum[{t[1]}]({_fmt(t[2])})"
    if k == "inset":
        return f"(if {_fpos(t[2])} in {t[1]} then {_fmt(t[3])} else {_fmt(t[4])})"
    return repr(t)


def _fpos(p) -> str:
    if p is None:
        return "-"
    if p[0] == "only":
        return "only"
    if p[0] in ("first", "last", "i"):
        return p[0] + (f"{p[1]:+d}" if p[1] else "")
    if p[0] == "mem":
        return f"mu in {p[1]}"
    if p[0] == "rank":
        return f"rank[{p[1]}]" + (f"({_fpos(p[3])})" if len(p) > 3 else "")
    return str(p)


def show_rf(r: RF, nz: Normalizer, limit: int = 600) -> str:
    def atom(a):
        d = nz.desc(a)
        if d[0] == "sym":
            key = d[1]
            if key[0] == "s":
                return str(key[1])
            return f"{key[2]}.{key[1]}@{_fpos(key[3])}"
        if d[0] == "inf":
            return "inf"
        if d[0] == "fn":
            return f"{d[1]}(" + ", ".join(show_rf(x, nz, 200) for x in d[2:]) + ")"
        if d[0] in ("min", "max"):
            return f"{d[0]}(" + ", ".join(show_rf(x, nz, 200) for x in d[1]) + ")"
        if d[0] == "ite":
            return "ite(" + ", ".join(show_rf(x, nz, 200) for x in d[1:]) + ")"
        if d[0] == "cmp":
            return f"[{show_rf(d[2], nz, 200)} {d[1]} 0]"
        if d[0] == "inset":
            return f"(if {_fpos(d[2])} in {d[1]}: {show_rf(d[3], nz, 200)} else {show_rf(d[4], nz, 200)})"
        if d[0] == "sumfam":
            return f"sum[{d[1]}]({show_rf(d[2], nz, 200)})"
        return str(d)

    def poly(p):
        if not p:
            return "0"
        parts = []
        for m, c in sorted(p.items()):
            f = "*".join(atom(a) + (f"^{e}" if e != 1 else "") for a, e in m)
            cs = str(c) if c.denominator == 1 else f"{float(c):g}"
            if not f:
                parts.append(cs)
            elif c == 1:
                parts.append(f)
            elif c == -1:
                parts.append("-" + f)
            else:
                parts.append(f"{cs}*{f}")
        return " + ".join(parts)

    n = poly(r.num)
    s = n if (set(r.den) == {()} and r.den[()] == 1) else f"({n}) / ({poly(r.den)})"
    return s if len(s) <= limit else s[: limit - 3] + "..."
