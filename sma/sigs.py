"""SIG - call-shape conformance: bind the arguments of a call site to a callee's
``ast.arguments`` and report shapes that cannot bind."""
from __future__ import annotations

import ast
from dataclasses import dataclass
from typing import Optional

from .front import AnalysisError, ext_source


@dataclass
class Sig:
    posonly: list
    pos: list  # positional-or-keyword names (without self if stripped)
    defaults: int  # number of trailing positional params that have defaults
    vararg: Optional[str]
    kwonly: list
    kwonly_required: list
    kwarg: Optional[str]

    @property
    def required(self) -> list:
        allpos = self.posonly + self.pos
        return allpos[: len(allpos) - self.defaults]

    def names(self) -> list:
        return self.posonly + self.pos


def sig_of(fn: ast.FunctionDef, drop_first: bool = False) -> Sig:
    a = fn.args
    posonly = [x.arg for x in a.posonlyargs]
    pos = [x.arg for x in a.args]
    if drop_first:
        if posonly:
            posonly = posonly[1:]
        elif pos:
            pos = pos[1:]
    kwonly = [x.arg for x in a.kwonlyargs]
    kwreq = [x.arg for x, d in zip(a.kwonlyargs, a.kw_defaults) if d is None]
    return Sig(
        posonly,
        pos,
        len(a.defaults),
        a.vararg.arg if a.vararg else None,
        kwonly,
        kwreq,
        a.kwarg.arg if a.kwarg else None,
    )


@dataclass
class Binding:
    ok: bool
    reason: str = ""
    bound: dict = None  # param name -> ast expr (positional / keyword)
    opaque_star: bool = False
    opaque_kw: bool = False


def static_kw_keys(node: ast.AST, consts: dict):
    """Keys of a ``**expr`` when statically known: ``**{K: v}`` with constant /
    module-constant keys. Returns list of (key, value_node) or None."""
    if isinstance(node, ast.Dict):
        out = []
        for k, v in zip(node.keys, node.values):
            if k is None:
                return None
            if isinstance(k, ast.Constant) and isinstance(k.value, str):
                out.append((k.value, v))
            elif isinstance(k, ast.Name) and k.id in consts:
                out.append((consts[k.id], v))
            else:
                return None
        return out
    return None


def bind(call: ast.Call, sig: Sig, consts: Optional[dict] = None) -> Binding:
    consts = consts or {}
    bound: dict = {}
    npos = 0
    opaque_star = False
    for a in call.args:
        if isinstance(a, ast.Starred):
            opaque_star = True
            continue
        npos += 1
    allpos = sig.posonly + sig.pos
    if not opaque_star:
        if npos > len(allpos) and sig.vararg is None:
            return Binding(
                False,
                f"{npos} positional argument(s) for {len(allpos)} positional "
                f"parameter(s) ({', '.join(allpos)})"
                + (f"; keyword-only: {', '.join(sig.kwonly)}" if sig.kwonly else ""),
            )
        i = 0
        for a in call.args:
            if i < len(allpos):
                bound[allpos[i]] = a
            i += 1
    opaque_kw = False
    for kw in call.keywords:
        items = None
        if kw.arg is None:
            items = static_kw_keys(kw.value, consts)
            if items is None:
                opaque_kw = True
                continue
        else:
            items = [(kw.arg, kw.value)]
        for k, v in items:
            if k in bound:
                return Binding(False, f"multiple values for parameter '{k}'")
            if k in sig.pos or k in sig.kwonly:
                bound[k] = v
            elif sig.kwarg is not None:
                bound.setdefault("**" + sig.kwarg, []).append((k, v))
            else:
                return Binding(False, f"unexpected keyword argument '{k}'")
    if not opaque_star and not opaque_kw:
        missing = [p for p in sig.required if p not in bound]
        missing += [p for p in sig.kwonly_required if p not in bound]
        if missing:
            return Binding(False, f"missing required argument(s): {', '.join(missing)}")
    return Binding(True, "", bound, opaque_star, opaque_kw)


# ------------------------------------------------------- external (networkx)
_EXT_CACHE: dict = {}


def ext_module_ast(dotted: str) -> ast.Module:
    if dotted not in _EXT_CACHE:
        path = ext_source(dotted)
        if path is None:
            raise AnalysisError(f"cannot locate installed source of {dotted}")
        with open(path, encoding="utf-8") as fh:
            _EXT_CACHE[dotted] = (ast.parse(fh.read(), filename=path), path)
    return _EXT_CACHE[dotted]


def ext_class(dotted_module: str, clsname: str) -> ast.ClassDef:
    tree, _ = ext_module_ast(dotted_module)
    for st in tree.body:
        if isinstance(st, ast.ClassDef) and st.name == clsname:
            return st
    raise AnalysisError(f"class {clsname} not found in {dotted_module}")


def ext_method(dotted_module: str, clsname: str, meth: str, _depth=0):
    """Resolve a method through the (single-module) MRO of an external class."""
    cd = ext_class(dotted_module, clsname)
    for st in cd.body:
        if isinstance(st, ast.FunctionDef) and st.name == meth:
            return st, f"{dotted_module}.{clsname}.{meth}"
    if _depth > 8:
        return None, None
    for b in cd.bases:
        if isinstance(b, ast.Name):
            try:
                r = ext_method(dotted_module, b.id, meth, _depth + 1)
            except AnalysisError:
                continue
            if r[0] is not None:
                return r
    return None, None
