"""Constructor conformance: the element constructors are interpreted from source
with symbolic arguments and must store every documented parameter in the slot the
dynamics read (the abstract worlds build elements directly from those slots)."""
from __future__ import annotations

from . import expr as E
from .core import Report
from .front import AnalysisError, Program
from .gworld import GWorld
from .interp import FuncV, IterV, Obj, Raised, TV
from .wire import DESTS, LINK, LINKVSL, NODE, ORIGINS

LINK_ARGS = ["nb_segments", "lanes", "length", "maximum_density", "critical_density",
             "free_flow_velocity", "a"]
LINK_SLOTS = ["N", "lam", "L", "rho_max", "rho_crit", "v_free", "a"]


class CtorWorld(GWorld):
    def call_ext(self, it, name, args, kwargs, node):
        if name == "itertools.count":
            start = args[0] if args else 0
            return IterV(list(range(start, start + 64)))
        return GWorld.call_ext(self, it, name, args, kwargs, node)

    def on_setattr(self, it, o, attr, v, node):
        return None


def construct(prog: Program, cls_fq: str, args, kwargs):
    w = CtorWorld(prog, "casadi")
    it = w.interp()
    o = Obj(cls_fq, "obj", kind="other")
    init = prog.lookup_method(cls_fq, "__init__")
    if init is not None:
        try:
            it.call_function(FuncV(init, o, defcls=init.cls), list(args), dict(kwargs))
        except AnalysisError:
            ev = [e for e in it.events if e.kind == "symbolic-truth"]
            if ev:
                # python-level coercion / branching on an argument: a symbolic parameter is
                # not stored as given (casadi: float(SX) is nan, float(MX) raises)
                raise Raised("TypeError", ev[-1].node, None, ev[-1].detail)
            raise
    ev = [e for e in it.events if e.kind == "symbolic-truth"]
    if ev:
        # `x or default`, `if x:` on a parameter: a legitimate zero is swallowed and a symbolic
        # value has no truth value (casadi raises)
        raise Raised("TypeError", ev[-1].node, None,
                     "the constructor takes the python truth value of a parameter: " + ev[-1].detail)
    return o


def _sym(n):
    return TV(E.S(f"arg.{n}"), 0, False, f"constructor argument {n}")


def check(rep: Report, groups=("link", "vsl", "origin", "destination", "node")) -> None:
    prog = rep.prog

    def where(fq):
        init = prog.lookup_method(fq, "__init__")
        if init is None:
            return fq
        return f"{prog.modules[init.module].relpath}:{init.node.lineno} {init.qualname}"

    def run(label, fq, args, kwargs, expect: dict, key, expect_raise=None):
        try:
            o = construct(prog, fq, args, kwargs)
        except Raised as e:
            if expect_raise is not None:
                rep.check(e.exc.split(".")[-1] == expect_raise, "constructor", label, where(fq),
                          f"raises {e.exc} instead of {expect_raise}", key=f"ctor|{key}")
            else:
                rep.refuted("constructor", label, where(fq), f"raises {e.exc}: {e.msg}", key=f"ctor|{key}|raise")
            return
        if expect_raise is not None:
            rep.refuted("constructor", label, where(fq), f"accepts the arguments instead of raising {expect_raise}",
                        key=f"ctor|{key}")
            return
        bad = []
        for slot, want in expect.items():
            got = o.attrs.get(slot, "<unset>")
            g = got.t if isinstance(got, TV) else got
            w_ = want.t if isinstance(want, TV) else want
            if g != w_:
                bad.append(f"{slot} = {E.fmt(g, 40) if E.is_term(g) else g!r} (expected "
                           f"{E.fmt(w_, 40) if E.is_term(w_) else w_!r})")
        rep.check(not bad, "constructor", label, where(fq),
                  "the constructor does not store what it is given: " + "; ".join(bad[:4]), key=f"ctor|{key}")

    vars_none = {"states": None, "next_states": None, "actions": None, "disturbances": None}
    if "link" in groups or "vsl" in groups:
        syms = {a: _sym(a) for a in LINK_ARGS[1:]}
        tr = _sym("turnrate")
        base_expect = {s: syms[a] for a, s in zip(LINK_ARGS[1:], LINK_SLOTS[1:])}
        if "link" in groups:
            run("Link(positional arguments, turnrate, name)", LINK,
                [3] + [syms[a] for a in LINK_ARGS[1:]] + [tr, "L"], {},
                {"N": 3, **base_expect, "turnrate": tr, "name": "L", **vars_none}, "Link-pos")
            run("Link(keyword arguments)", LINK, [],
                {"nb_segments": 2, **{a: syms[a] for a in LINK_ARGS[1:]}, "turnrate": tr, "name": "L"},
                {"N": 2, **base_expect, "turnrate": tr, "name": "L"}, "Link-kw")
            run("Link(default turn rate)", LINK, [1] + [syms[a] for a in LINK_ARGS[1:]], {"name": "L"},
                {"N": 1, **base_expect, "turnrate": 1.0}, "Link-default-turnrate")
        if "vsl" in groups:
            al = _sym("alpha")
            run("LinkWithVsl(..., segments_with_vsl={3, 1}, alpha, turnrate=, name=)", LINKVSL,
                [4] + [syms[a] for a in LINK_ARGS[1:]],
                {"segments_with_vsl": frozenset({3, 1}), "alpha": al, "turnrate": tr, "name": "L"},
                {"N": 4, **base_expect, "turnrate": tr, "name": "L", "vsl": [1, 3], "alpha": al}, "Vsl-kw")
            run("LinkWithVsl(all keyword arguments)", LINKVSL, [],
                {"nb_segments": 2, **{a: syms[a] for a in LINK_ARGS[1:]}, "segments_with_vsl": frozenset({0}),
                 "alpha": al, "name": "L"},
                {"N": 2, **base_expect, "turnrate": 1.0, "vsl": [0], "alpha": al}, "Vsl-allkw")
            run("LinkWithVsl(segment index out of range)", LINKVSL, [2] + [syms[a] for a in LINK_ARGS[1:]],
                {"segments_with_vsl": frozenset({2}), "alpha": al, "name": "L"}, {}, "Vsl-range", expect_raise="ValueError")
            run("LinkWithVsl(negative segment index)", LINKVSL, [2] + [syms[a] for a in LINK_ARGS[1:]],
                {"segments_with_vsl": frozenset({-1}), "alpha": al, "name": "L"}, {}, "Vsl-neg", expect_raise="ValueError")
    if "origin" in groups:
        C = _sym("capacity")
        run("Origin(name)", f"{ORIGINS}:Origin", [], {"name": "O"}, {"name": "O", **vars_none}, "Origin")
        run("MainstreamOrigin(name)", f"{ORIGINS}:MainstreamOrigin", ["O"], {}, {"name": "O", **vars_none}, "Mainstream")
        run("MeteredOnRamp(capacity) has flow equation 'out' by default", f"{ORIGINS}:MeteredOnRamp", [C], {"name": "O"},
            {"C": C, "flow_eq_type": "out", "name": "O", **vars_none}, "Ramp-default")
        run("MeteredOnRamp(capacity, 'in', name)", f"{ORIGINS}:MeteredOnRamp", [C, "in", "O"], {},
            {"C": C, "flow_eq_type": "in", "name": "O"}, "Ramp-in")
        run("MeteredOnRamp(capacity=, flow_eq_type='in')", f"{ORIGINS}:MeteredOnRamp", [],
            {"capacity": C, "flow_eq_type": "in", "name": "O"}, {"C": C, "flow_eq_type": "in"}, "Ramp-kw")
        run("SimplifiedMeteredOnRamp(capacity) is 'limited' by default", f"{ORIGINS}:SimplifiedMeteredOnRamp", [C],
            {"name": "O"}, {"C": C, "flow_eq_type": "limited", "name": "O", **vars_none}, "Simplified-default")
        run("SimplifiedMeteredOnRamp(capacity, 'unlimited', name)", f"{ORIGINS}:SimplifiedMeteredOnRamp",
            [C, "unlimited", "O"], {}, {"C": C, "flow_eq_type": "unlimited", "name": "O"}, "Simplified-unlimited")
        run("SimplifiedMeteredOnRamp(capacity=, flow_eq_type='limited')", f"{ORIGINS}:SimplifiedMeteredOnRamp", [],
            {"capacity": C, "flow_eq_type": "limited", "name": "O"}, {"C": C, "flow_eq_type": "limited"}, "Simplified-kw")
    if "destination" in groups:
        run("Destination(name)", f"{DESTS}:Destination", [], {"name": "D"}, {"name": "D", **vars_none}, "Destination")
        run("CongestedDestination(name)", f"{DESTS}:CongestedDestination", ["D"], {}, {"name": "D", **vars_none}, "Congested")
    if "node" in groups:
        run("Node(name)", NODE, ["N"], {}, {"name": "N"}, "Node")
        # default names are distinct per instance
        try:
            a = construct(prog, NODE, [], {})
            ok = isinstance(a.attrs.get("name"), str) and bool(a.attrs.get("name"))
            rep.check(ok, "constructor", "Node() gets a generated name", where(NODE),
                      f"name = {a.attrs.get('name')!r}", key="ctor|Node-default")
        except Raised as e:
            rep.refuted("constructor", "Node() gets a generated name", where(NODE), f"raises {e.exc}", key="ctor|Node-default")
