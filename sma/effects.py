"""EFF - facet read/write effects of ``Network`` (DESIGN.md section 1.6).

Facets of the graph:
  nodes             the set of node objects
  edges             the set of (up, down, link) triples
  attr:<K>          the partial map node -> value of node attribute K
  graphobj          the identity of the DiGraph object itself
"""
from __future__ import annotations

import ast
from dataclasses import dataclass, field
from typing import Optional

from .front import AnalysisError, FunctionInfo, Program, dotted_name, short, text
from . import sigs

NODES, EDGES, GRAPHOBJ = "nodes", "edges", "graphobj"


def ATTR(k: str) -> str:
    return f"attr:{k}"


# networkx mutators: hand table (cross-checked against the installed source by
# `derive_nx_effects` in the thorough tier)
NX_WRITE_TABLE = {
    "add_node": {NODES},
    "add_nodes_from": {NODES},
    "add_edge": {NODES, EDGES},
    "add_edges_from": {NODES, EDGES},
    "add_weighted_edges_from": {NODES, EDGES},
    "remove_node": {NODES, EDGES, "attr:*"},
    "remove_nodes_from": {NODES, EDGES, "attr:*"},
    "remove_edge": {EDGES},
    "remove_edges_from": {EDGES},
    "clear": {NODES, EDGES, "attr:*"},
    "clear_edges": {EDGES},
    "update": {NODES, EDGES, "attr:*"},
}
NX_READONLY = {
    "nodes", "edges", "in_edges", "out_edges", "adj", "succ", "pred", "has_node",
    "has_edge", "number_of_nodes", "number_of_edges", "successors", "predecessors",
    "neighbors", "degree", "in_degree", "out_degree", "get_edge_data", "order",
    "size", "nbunch_iter", "is_directed", "is_multigraph", "name", "graph",
    "__contains__", "__len__", "__iter__", "__getitem__",
}
DICT_MUTATORS = {"update", "clear", "pop", "popitem", "setdefault", "__setitem__",
                 "__delitem__", "append", "extend", "insert", "remove", "add", "discard"}
GRAPH_ALIASES = {"_graph", "G", "graph", "asgraph"}


def set_parents(tree: ast.AST) -> None:
    for p in ast.walk(tree):
        for c in ast.iter_child_nodes(p):
            c._parent = p  # type: ignore[attr-defined]


def parent(n):
    return getattr(n, "_parent", None)


@dataclass
class Write:
    facets: set
    node: ast.AST
    desc: str
    pos: tuple  # (lineno, col)


@dataclass
class MethodEffects:
    fi: FunctionInfo
    writes: list = field(default_factory=list)  # direct graph writes
    cached_reads: list = field(default_factory=list)  # (propname, node)
    cache_stores: list = field(default_factory=list)  # hand-maintained cache (propname, node, how)
    self_calls: list = field(default_factory=list)  # (method name, node)
    invalidates: Optional[list] = None  # None = undecorated
    dec_node: Optional[ast.AST] = None
    helper: bool = False  # private, undecorated, only reached through other methods


class NetModel:
    def __init__(self, prog: Program):
        self.prog = prog
        self.mi = prog.module("sym_metanet.network")
        self.ci = prog.find_class("sym_metanet.network", "Network")
        views = prog.module("sym_metanet.views")
        self.consts: dict[str, str] = {}
        for k, v in views.assigns.items():
            if isinstance(v, ast.Constant) and isinstance(v.value, str):
                self.consts[k] = v.value
        for need in ("LINKENTRY", "ORIGINENTRY", "DESTINATIONENTRY"):
            if need not in self.consts:
                raise AnalysisError(f"anchor vanished: views.{need}")
        self.attr_keys = [self.consts["ORIGINENTRY"], self.consts["DESTINATIONENTRY"]]
        set_parents(self.ci.node)
        self.cached: dict[str, FunctionInfo] = {}
        self.props: dict[str, FunctionInfo] = {}
        self.methods: dict[str, FunctionInfo] = {}
        # the network class and the repository base classes it is split into (same module)
        all_methods: dict = {}
        self.all_attrs: dict = {}
        for c in prog.mro(self.ci.fq):
            ci_ = prog.classes[c]
            if ci_.module != self.mi.name:
                continue
            if ci_ is not self.ci:
                set_parents(ci_.node)
            for name, fi in ci_.methods.items():
                all_methods.setdefault(name, fi)
            for name, v in ci_.attrs.items():
                self.all_attrs.setdefault(name, v)
        for name, fi in all_methods.items():
            if fi.is_cached_property():
                self.cached[name] = fi
            elif fi.is_property():
                self.props[name] = fi
            else:
                self.methods[name] = fi
        # properties built by module-level factories: `name = factory(CONST, ...)` in the class
        # body, where `factory` defines a getter and returns (cached_)property(getter)
        self._factory_env: dict[str, dict] = {}
        for name, val in self.all_attrs.items():
            fac = self._factory_property(val)
            if fac is None:
                continue
            kind, getter, env = fac
            fi = FunctionInfo(self.mi.name, f"Network.{name}", getter, cls=self.ci.fq)
            (self.cached if kind == "cached_property" else self.props)[name] = fi
            self._factory_env[name] = env
        # node-view aliases: uncached properties returning self._graph.nodes
        self.nodeview_aliases = {"nodes"} & set(self.props) if self._is_alias(
            "nodes", "nodes") else set()
        self.graph_aliases = {
            p for p in self.props if self._returns_graph(self.props[p])
        } | {"_graph"}
        self._reads_cache: dict[str, set] = {}
        self.effects: dict[str, MethodEffects] = {}
        for name, fi in self.methods.items():
            self.effects[name] = self._method_effects(fi)
        self._propagate_helpers()

    def _propagate_helpers(self) -> None:
        """Graph writes made by a private, undecorated helper count as writes of the
        methods that call it (with the constants the call site passes, e.g. the attribute
        key); the helper itself is not an entry point with an obligation of its own."""
        called_by: dict = {}
        for m, e in self.effects.items():
            for h, call in e.self_calls:
                called_by.setdefault(h, []).append((m, call))
        for _ in range(3):  # helpers calling helpers
            for h, sites in called_by.items():
                he = self.effects.get(h)
                if he is None or he.invalidates is not None or not h.startswith("_") or h.startswith("__"):
                    continue
                for m, call in sites:
                    if m == h:
                        continue
                    env = {}
                    params = [a.arg for a in he.fi.node.args.args][1:]
                    for prm, a in zip(params, call.args):
                        c = self.const_of(a)
                        if c is not None:
                            env[prm] = c
                    for kw in call.keywords:
                        c = self.const_of(kw.value) if kw.arg else None
                        if c is not None:
                            env[kw.arg] = c
                    self._env = env
                    try:
                        sub = self._method_effects(he.fi)
                    finally:
                        self._env = {}
                    me = self.effects[m]
                    have = {(id(w.node), frozenset(w.facets)) for w in me.writes}
                    for w in sub.writes:
                        nw = Write(w.facets, call, f"{short(call, 50)} -> {w.desc}", _pos(call))
                        if (id(call), frozenset(w.facets)) not in have:
                            me.writes.append(nw)
                            have.add((id(call), frozenset(w.facets)))
                    he.helper = he.helper or bool(sub.writes or he.writes)

    def decorator_names(self, fi: FunctionInfo):
        """(decorator node, names of the cached lookups an `invalidate_cache(...)` lists) or
        (None, None); `*NAMES` with NAMES a class-level tuple of lookups (possibly built from
        other such tuples, possibly of a base class) is expanded"""
        def names_of(e, depth=0) -> list:
            if depth > 6:
                raise AnalysisError(f"invalidate_cache arguments at {fi.qualname} nest too deeply")
            if isinstance(e, ast.Name):
                ca, _owner = self.prog.lookup_class_attr(self.ci.fq, e.id)
                if ca is not None and isinstance(ca, (ast.Tuple, ast.List)):
                    return [x for el in ca.elts for x in names_of(el, depth + 1)]
                return [e.id]
            if isinstance(e, ast.Attribute):
                # Class.lookup / self-less reference to a lookup of a base class
                ca, _owner = self.prog.lookup_class_attr(self.ci.fq, e.attr)
                if ca is not None and isinstance(ca, (ast.Tuple, ast.List)):
                    return [x for el in ca.elts for x in names_of(el, depth + 1)]
                return [e.attr]
            if isinstance(e, ast.Starred):
                v = e.value
                if isinstance(v, (ast.Tuple, ast.List)):
                    return [x for el in v.elts for x in names_of(el, depth + 1)]
                if isinstance(v, (ast.Name, ast.Attribute)):
                    nm = v.id if isinstance(v, ast.Name) else v.attr
                    ca, _owner = self.prog.lookup_class_attr(self.ci.fq, nm)
                    if ca is not None and isinstance(ca, (ast.Tuple, ast.List)):
                        return [x for el in ca.elts for x in names_of(el, depth + 1)]
                raise AnalysisError(f"unresolved *argument of invalidate_cache at {fi.qualname}")
            raise AnalysisError(f"non-name argument of invalidate_cache at {fi.qualname}")

        for d in fi.node.decorator_list:
            if isinstance(d, ast.Call) and (dotted_name(d.func) or "").split(".")[-1] == "invalidate_cache":
                names = []
                for a in d.args:
                    names.extend(names_of(a))
                return d, names
        return None, None

    def _factory_property(self, val):
        """('cached_property' | 'property', getter FunctionDef, {param: constant}) if `val` is a
        call of a module-level factory that returns a property built from a nested getter"""
        if not (isinstance(val, ast.Call) and isinstance(val.func, ast.Name)):
            return None
        f = self.mi.functions.get(val.func.id)
        if f is None:
            return None
        inner = {n.name: n for n in f.node.body if isinstance(n, ast.FunctionDef)}
        for st in ast.walk(f.node):
            if isinstance(st, ast.Return) and isinstance(st.value, ast.Call):
                kind = (dotted_name(st.value.func) or "").split(".")[-1]
                if kind in ("cached_property", "property") and st.value.args and \
                        isinstance(st.value.args[0], ast.Name) and st.value.args[0].id in inner:
                    getter = inner[st.value.args[0].id]
                    env = {}
                    params = [a.arg for a in f.node.args.args]
                    for prm, a in zip(params, val.args):
                        c = self.const_of(a)
                        if c is not None:
                            env[prm] = c
                    for kw in val.keywords:
                        c = self.const_of(kw.value) if kw.arg else None
                        if c is not None:
                            env[kw.arg] = c
                    set_parents(getter)
                    return kind, getter, env
        return None

    # -------------------------------------------------------------- helpers
    def _is_alias(self, prop: str, attr: str) -> bool:
        fi = self.props.get(prop)
        if fi is None:
            return False
        body = [s for s in fi.node.body if not _is_doc(s)]
        return (
            len(body) == 1
            and isinstance(body[0], ast.Return)
            and dotted_name(body[0].value) == f"self._graph.{attr}"
        )

    def _returns_graph(self, fi: FunctionInfo) -> bool:
        body = [s for s in fi.node.body if not _is_doc(s)]
        return (
            len(body) == 1
            and isinstance(body[0], ast.Return)
            and dotted_name(body[0].value) == "self._graph"
        )

    def const_of(self, node: ast.AST) -> Optional[str]:
        if isinstance(node, ast.Constant) and isinstance(node.value, str):
            return node.value
        if isinstance(node, ast.Name) and node.id in self.consts:
            return self.consts[node.id]
        if isinstance(node, ast.Name) and node.id in getattr(self, "_env", {}):
            return self._env[node.id]
        return None

    def all_attr_facets(self) -> set:
        return {ATTR(k) for k in self.attr_keys}

    def expand(self, facets: set) -> set:
        out = set()
        for f in facets:
            if f == "attr:*":
                out |= self.all_attr_facets()
            else:
                out.add(f)
        return out

    # ---------------------------------------------------------------- reads
    def reads(self, propname: str, _stack=()) -> set:
        """Transitive facet read set of a property (cached or not)."""
        if propname in self._reads_cache:
            return self._reads_cache[propname]
        if propname in _stack:
            return set()
        fi = self.cached.get(propname) or self.props.get(propname)
        if fi is None:
            raise AnalysisError(f"no property Network.{propname}")
        out = self._reads_of(fi, _stack + (propname,), dict(self._factory_env.get(propname, {})))
        self._reads_cache[propname] = out
        return out

    def _reads_of(self, fi: FunctionInfo, _stack: tuple, env: dict) -> set:
        """facets read by the body of `fi`; `env` maps parameter names of a helper
        method to the string constants it was called with"""
        out: set = set()
        saved = getattr(self, "_env", {})
        self._env = env
        try:
            for n in ast.walk(fi.node):
                if isinstance(n, ast.Call) and isinstance(n.func, ast.Name) and n.func.id == "getattr" \
                        and len(n.args) >= 2 and _is_self(n.args[0]):
                    a = self.const_of(n.args[1])
                    if a is None:
                        raise AnalysisError(f"{fi.qualname}: getattr(self, <not a constant>) is not modelled")
                elif isinstance(n, ast.Attribute) and _is_self(n.value):
                    a = n.attr
                else:
                    continue
                if a in self.graph_aliases:
                    out |= self._classify_graph_use(n, fi)
                elif a in self.cached or a in self.props:
                    if a in self.nodeview_aliases:
                        out |= self._classify_nodeview_use(n, fi)
                    else:
                        sub = self.reads(a, _stack)
                        # a view used through iteration / call reads the edges; a view
                        # merely returned is an alias
                        if sub == {GRAPHOBJ} and self._is_view(a):
                            out |= self._classify_view_use(n, fi)
                        else:
                            out |= sub
                elif a in self.methods:
                    call = parent(n)
                    m = self.methods[a]
                    if m.qualname in _stack or len(_stack) > 8:
                        continue
                    if self.effects_direct_writes(m):
                        raise AnalysisError(
                            f"{fi.qualname} calls the mutating method {a}: not modelled")
                    sub_env = {}
                    if isinstance(call, ast.Call) and call.func is n:
                        params = [x.arg for x in m.node.args.args][1:]
                        for pn, arg in zip(params, call.args):
                            c = self.const_of(arg)
                            if c is not None:
                                sub_env[pn] = c
                        for kw in call.keywords:
                            if kw.arg and self.const_of(kw.value) is not None:
                                sub_env[kw.arg] = self.const_of(kw.value)
                    self._env = sub_env
                    out |= self._reads_of(m, _stack + (m.qualname,), sub_env)
                    self._env = env
        finally:
            self._env = saved
        return out

    def effects_direct_writes(self, m: FunctionInfo) -> bool:
        for n in ast.walk(m.node):
            if isinstance(n, ast.Call) and isinstance(n.func, ast.Attribute) and n.func.attr in NX_WRITE_TABLE \
                    and self._is_graph_expr(n.func.value):
                return True
        return False

    def _is_view(self, propname: str) -> bool:
        fi = self.cached.get(propname) or self.props.get(propname)
        for n in ast.walk(fi.node):
            if isinstance(n, ast.Return) and n.value is not None:
                v = n.value
                if isinstance(v, ast.Call):
                    nm = dotted_name(v.func)
                    if nm and nm.endswith("ViewWrapper"):
                        return True
                if isinstance(v, ast.Attribute) and _is_self(v.value):
                    if v.attr in self.cached or v.attr in self.props:
                        return self._is_view(v.attr)
        return False

    def _classify_view_use(self, n: ast.Attribute, fi: FunctionInfo) -> set:
        p = parent(n)
        if isinstance(p, ast.Return):
            return {GRAPHOBJ}
        return {EDGES}

    def _classify_graph_use(self, n: ast.Attribute, fi: FunctionInfo) -> set:
        """n is `self._graph` (or alias) inside a *getter*."""
        p = parent(n)
        if isinstance(p, ast.Return) or (isinstance(p, ast.Call) and n in p.args):
            return {GRAPHOBJ}
        if isinstance(p, ast.Attribute):
            if p.attr == "nodes":
                return self._classify_nodeview_use(p, fi)
            if p.attr in ("edges", "in_edges", "out_edges", "adj", "succ", "pred"):
                return {EDGES}
            if p.attr in NX_WRITE_TABLE:
                raise AnalysisError(
                    f"graph mutation inside getter {fi.qualname}: {short(parent(p))}"
                )
        raise AnalysisError(
            f"unrecognised graph access in getter {fi.qualname}: {short(p)}"
        )

    def _classify_nodeview_use(self, nv: ast.AST, fi: FunctionInfo) -> set:
        """nv is the expression `self._graph.nodes` / `self.nodes`."""
        p = parent(nv)
        if isinstance(p, ast.Return):
            return set()  # alias property
        if (
            isinstance(p, ast.Attribute)
            and p.attr in ("data", "items", "values")
            and isinstance(parent(p), ast.Call)
        ):
            # iteration over (node, data): narrowed by the keys the enclosing
            # comprehension / loop mentions
            scope = _enclosing_iteration(parent(p))
            keys = set()
            if scope is not None:
                for m in ast.walk(scope):
                    k = self.const_of(m)
                    if k in self.attr_keys:
                        keys.add(k)
            if keys:
                return {ATTR(k) for k in keys}
            return {NODES} | self.all_attr_facets()
        if isinstance(p, ast.Subscript) and p.value is nv:
            pp = parent(p)
            if isinstance(pp, ast.Subscript) and pp.value is p:
                k = self.const_of(pp.slice)
                if k is not None:
                    return {ATTR(k)}
            return {NODES} | self.all_attr_facets()
        return {NODES}

    # ------------------------------------------------------- method effects
    def _method_effects(self, fi: FunctionInfo) -> MethodEffects:
        me = MethodEffects(fi)
        me.dec_node, me.invalidates = self.decorator_names(fi)
        for n in ast.walk(fi.node):
            # ---- calls on the graph object
            if isinstance(n, ast.Call) and isinstance(n.func, ast.Attribute):
                recv = n.func.value
                meth = n.func.attr
                if self._is_graph_expr(recv):
                    if meth in NX_WRITE_TABLE:
                        facets = set(NX_WRITE_TABLE[meth])
                        for kw in n.keywords:
                            if kw.arg is None:
                                items = sigs.static_kw_keys(kw.value, {**self.consts, **getattr(self, "_env", {})})
                                if items is None:
                                    facets |= {"attr:*"}
                                else:
                                    for k, _ in items:
                                        if meth in ("add_node", "add_nodes_from"):
                                            facets.add(ATTR(k))
                            elif meth in ("add_node", "add_nodes_from"):
                                facets.add(ATTR(kw.arg))
                        me.writes.append(
                            Write(self.expand(facets), n, f"{short(n, 70)}", _pos(n))
                        )
                    elif meth not in NX_READONLY:
                        eff = derive_nx_effects(meth)
                        if eff is None:
                            raise AnalysisError(
                                f"unknown graph method `{meth}` in {fi.qualname}"
                            )
                        if eff:
                            me.writes.append(
                                Write(self.expand(eff), n, short(n, 70), _pos(n))
                            )
                elif meth in DICT_MUTATORS:
                    sk = n.args[0] if (meth in ("setdefault", "pop", "__setitem__", "__delitem__") and n.args) else None
                    root = self._rooted(recv, store_key=sk)
                    if sk is not None and root is not None and root[0] == "graph" and self.const_of(sk) is not None:
                        # self.nodes[n].setdefault(K, v): one more subscript level than a store
                        root = ("graph", {ATTR(self.const_of(sk))})
                    if root is not None:
                        kind, facet = root
                        if kind == "graph":
                            me.writes.append(
                                Write(self.expand(facet), n, short(n, 70), _pos(n))
                            )
                        elif kind == "cache":
                            me.cache_stores.append((facet, n, f".{meth}()"))
            # ---- subscript stores / deletes
            if isinstance(n, ast.Subscript) and isinstance(
                n.ctx, (ast.Store, ast.Del)
            ):
                root = self._rooted(n.value, store_key=n.slice)
                if root is not None:
                    kind, facet = root
                    if kind == "graph":
                        me.writes.append(
                            Write(self.expand(facet), n, short(parent(n), 70), _pos(n))
                        )
                    elif kind == "cache":
                        me.cache_stores.append((facet, n, "subscript store"))
            # ---- attribute stores on self (cache overwrite / _graph rebind)
            if isinstance(n, ast.Attribute) and isinstance(n.ctx, (ast.Store, ast.Del)):
                if _is_self(n.value):
                    if n.attr in self.cached:
                        me.cache_stores.append((n.attr, n, "attribute store"))
                    if n.attr == "_graph" and fi.name != "__init__":
                        me.writes.append(
                            Write(
                                {GRAPHOBJ, NODES, EDGES} | self.all_attr_facets(),
                                n,
                                "rebinding self._graph",
                                _pos(n),
                            )
                        )
            # ---- cached reads and self-calls
            if isinstance(n, ast.Attribute) and _is_self(n.value) and isinstance(
                n.ctx, ast.Load
            ):
                if n.attr in self.cached:
                    me.cached_reads.append((n.attr, n))
                elif n.attr in self.props and n.attr not in self.nodeview_aliases:
                    # uncached property: reads of cached ones inside it count
                    for sub in self._cached_in_prop(n.attr):
                        me.cached_reads.append((sub, n))
                elif n.attr in self.methods and isinstance(parent(n), ast.Call):
                    me.self_calls.append((n.attr, parent(n)))
        return me

    def _cached_in_prop(self, prop: str, _seen=None) -> set:
        _seen = _seen or set()
        if prop in _seen:
            return set()
        _seen.add(prop)
        out = set()
        fi = self.props[prop]
        for n in ast.walk(fi.node):
            if isinstance(n, ast.Attribute) and _is_self(n.value):
                if n.attr in self.cached:
                    out.add(n.attr)
                elif n.attr in self.props:
                    out |= self._cached_in_prop(n.attr, _seen)
        return out

    def _is_graph_expr(self, e: ast.AST) -> bool:
        return (
            isinstance(e, ast.Attribute)
            and _is_self(e.value)
            and e.attr in self.graph_aliases
        )

    def _rooted(self, e: ast.AST, store_key=None):
        """Is the container expression `e` (being mutated) rooted at the graph or at
        a cached lookup?  Returns ("graph", facets) / ("cache", propname) / None."""
        chain = []
        cur = e
        while isinstance(cur, (ast.Subscript, ast.Attribute, ast.Call)):
            chain.append(cur)
            if isinstance(cur, ast.Subscript):
                cur = cur.value
            elif isinstance(cur, ast.Attribute):
                if _is_self(cur.value):
                    break
                cur = cur.value
            else:
                cur = cur.func
        if not (isinstance(cur, ast.Attribute) and _is_self(cur.value)):
            return None
        a = cur.attr
        if a in self.cached and not self._is_view(a):
            return ("cache", a)
        is_nodeview = a in self.nodeview_aliases
        if a in self.graph_aliases:
            # self._graph.nodes[...]... or self._graph[...]
            nxt = chain[-2] if len(chain) >= 2 else None
            if isinstance(nxt, ast.Attribute) and nxt.attr == "nodes":
                is_nodeview = True
            else:
                return ("graph", {EDGES})
        if is_nodeview:
            # self.nodes[n][K] = v  -> attr:K ;  self.nodes[n] ... -> all attrs
            k = self.const_of(store_key) if store_key is not None else None
            depth = sum(1 for c in chain if isinstance(c, ast.Subscript))
            if k is not None and depth >= 1:
                return ("graph", {ATTR(k)})
            return ("graph", {"attr:*"})
        return None


def _is_doc(s: ast.stmt) -> bool:
    return (
        isinstance(s, ast.Expr)
        and isinstance(s.value, ast.Constant)
        and isinstance(s.value.value, str)
    )


def _is_self(n: ast.AST) -> bool:
    return isinstance(n, ast.Name) and n.id == "self"


def _pos(n: ast.AST) -> tuple:
    return (getattr(n, "lineno", 0), getattr(n, "col_offset", 0))


def _enclosing_iteration(n: ast.AST):
    cur = n
    while cur is not None:
        p = parent(cur)
        if isinstance(
            p, (ast.DictComp, ast.ListComp, ast.SetComp, ast.GeneratorExp, ast.For)
        ):
            return p
        if isinstance(p, ast.FunctionDef):
            return None
        cur = p
    return None


def enclosing_loops(n: ast.AST) -> list:
    out = []
    cur = parent(n)
    while cur is not None and not isinstance(cur, ast.FunctionDef):
        if isinstance(cur, (ast.For, ast.While)):
            out.append(cur)
        cur = parent(cur)
    return out


# ---------------------------------------------- networkx effects from source
_NX_EFF_CACHE: dict = {}
_NX_STORE_MAP = {"_node": NODES, "_adj": EDGES, "_succ": EDGES, "_pred": EDGES}


def derive_nx_effects(meth: str, _depth: int = 0, _seen=None) -> Optional[set]:
    """May-write facets of ``DiGraph.<meth>`` derived from the installed networkx
    *source* (never imported): stores through self._node / _adj / _succ / _pred,
    transitively through ``self.<m>(...)`` calls.  None if the method is unknown."""
    if meth in _NX_EFF_CACHE:
        return _NX_EFF_CACHE[meth]
    _seen = _seen or set()
    if meth in _seen or _depth > 4:
        return set()
    _seen.add(meth)
    fn = None
    for mod, cls in (
        ("networkx.classes.digraph", "DiGraph"),
        ("networkx.classes.graph", "Graph"),
    ):
        cd = sigs.ext_class(mod, cls)
        for st in cd.body:
            if isinstance(st, ast.FunctionDef) and st.name == meth:
                fn = st
                break
        if fn is not None:
            break
    if fn is None:
        return None
    if any(
        isinstance(d, ast.Name) and d.id in ("cached_property", "property")
        for d in fn.decorator_list
    ):
        _NX_EFF_CACHE[meth] = set()
        return set()
    out: set = set()
    aliases: dict[str, set] = {}

    def root_facets(e: ast.AST, is_del: bool = False) -> set:
        # `e` is the container being stored into.  A store at depth 0 below
        # self._succ/_pred/_adj (``self._succ[n] = {}``) only creates the empty
        # adjacency of a node; deeper stores (``self._succ[u][v] = d``) and any
        # deletion change the edge set.
        cur = e
        depth = 0
        while isinstance(cur, (ast.Subscript, ast.Call, ast.Attribute)):
            if isinstance(cur, ast.Attribute):
                if isinstance(cur.value, ast.Name) and cur.value.id == "self":
                    f = _NX_STORE_MAP.get(cur.attr)
                    if f == EDGES and depth == 0 and not is_del:
                        return {NODES}
                    return {f} if f else set()
                cur = cur.value
            elif isinstance(cur, ast.Subscript):
                depth += 1
                cur = cur.value
            else:
                cur = cur.func
        if isinstance(cur, ast.Name):
            return aliases.get(cur.id, set())
        return set()

    for n in ast.walk(fn):
        if isinstance(n, ast.Assign):
            rf = root_facets(n.value)
            for t in n.targets:
                if isinstance(t, ast.Name) and rf:
                    aliases.setdefault(t.id, set()).update(rf)
                if isinstance(t, ast.Subscript):
                    f = root_facets(t.value)
                    out |= f
                    if rf:  # chained assignment x = self._node[n] = ...
                        pass
            # chained: `attr_dict = self._node[n] = factory()`
            for t in n.targets:
                if isinstance(t, ast.Subscript):
                    f = root_facets(t.value)
                    for t2 in n.targets:
                        if isinstance(t2, ast.Name) and f:
                            aliases.setdefault(t2.id, set()).update(f)
    for n in ast.walk(fn):
        if isinstance(n, ast.Subscript) and isinstance(n.ctx, (ast.Store, ast.Del)):
            out |= root_facets(n.value, isinstance(n.ctx, ast.Del))
        if isinstance(n, ast.Call) and isinstance(n.func, ast.Attribute):
            if n.func.attr in DICT_MUTATORS:
                f = root_facets(n.func.value, True)
                out |= f
                if NODES in f and n.func.attr == "update":
                    out.add("attr:*")
            if isinstance(n.func.value, ast.Name) and n.func.value.id == "self":
                sub = derive_nx_effects(n.func.attr, _depth + 1, _seen)
                if sub:
                    out |= sub
    _NX_EFF_CACHE[meth] = out
    return out
