"""D-table: the model neighbourhood of every next-state position (DESIGN.md section 2.3)."""
from __future__ import annotations

PARAMS = {"lam", "L", "rho_max", "rho_crit", "v_free", "a", "turnrate", "alpha", "C"}
GLOBALS = {"T", "tau", "eta", "kappa", "delta", "phi"}


NEIGHBOUR_ROLES = {"SELF", "SELF.vsl", "UIN", "UIN*", "UOUT*", "DOUT", "DOUT*", "ORG", "DST"}
# which parameters of a model neighbour the equations use: the lanes of an entering link (its
# flow), the turn rates of the links leaving the upstream node (the split), the lanes of the
# single following link (lane drop), the capacity of the origin
NEIGHBOUR_PARAMS = {
    "SELF": PARAMS, "SELF.vsl": PARAMS, "UIN": {"lam"}, "UIN*": {"lam"}, "UOUT*": {"turnrate"},
    "DOUT": {"lam"}, "DOUT*": set(), "ORG": {"C"}, "DST": set(),
}


def is_param(key) -> bool:
    """model parameters of the element itself or of a model neighbour (and the global
    ones); parameters of unrelated links are not allowed in a support"""
    if key[0] == "s":
        role, _, n = key[1].rpartition(".")
        if not role:
            return n in GLOBALS
        return role in NEIGHBOUR_ROLES and n in NEIGHBOUR_PARAMS[role]
    return False


def shift(pos, k):
    if pos is None or pos[0] == "only":
        return None
    return (pos[0], pos[1] + k)


def allowed_set(cfg, role, var, pos):
    """D-table: (kind, var, role, position) tuples allowed in the support"""
    A = set()
    conc = 4 if (cfg.link_cls == "LinkWithVsl" and not cfg.n1) else None  # concrete N of wire.py
    vsl = ([0] if cfg.n1 else [1, 3]) if cfg.link_cls == "LinkWithVsl" else []
    if conc is not None and pos is not None and pos[0] == "first":
        first = pos[1] == 0
        last = pos[1] == conc - 1
        p_first, p_last = ("first", 0), ("first", conc - 1)
        index = pos[1]
    else:
        first = pos is None or pos in (("first", 0), ("only",))
        last = pos is None or pos in (("last", 0), ("only",))
        p_first = ("only",) if cfg.n1 else ("first", 0)
        p_last = ("only",) if cfg.n1 else ("last", 0)
        index = 0 if (pos is None or cfg.n1) else None
    p_own = ("only",) if (pos is None or cfg.n1) else pos
    org_vars = set()
    if cfg.u_origin in ("MeteredOnRamp",):
        org_vars = {("s", "ORG.w"), ("s", "ORG.d"), ("s", "ORG.r"), ("sa", "rho", "SELF", p_first)}
    elif cfg.u_origin == "SimplifiedMeteredOnRamp":
        org_vars = {("s", "ORG.w"), ("s", "ORG.d"), ("s", "ORG.q"), ("sa", "rho", "SELF", p_first)}
    elif cfg.u_origin == "MainstreamOrigin":
        org_vars = {("s", "ORG.w"), ("s", "ORG.d"), ("s", "ORG.v_ctrl"), ("sa", "v", "SELF", p_first)}
    elif cfg.u_origin == "Origin":
        org_vars = {("sa", "rho", "SELF", p_first), ("sa", "v", "SELF", p_first)}
    in_role = "UIN" if cfg.u_in == 1 else ("UIN*" if cfg.u_in == "many" else None)
    loop = getattr(cfg, "selfloop", False)  # a one-link ring: the link is its own neighbour
    if loop:
        in_role = "SELF"
    if role == "ORG":
        return org_vars
    if var == "rho":
        A |= {("sa", "rho", "SELF", p_own), ("sa", "v", "SELF", p_own)}
        if not first:
            A |= {("sa", "rho", "SELF", shift(pos, -1)), ("sa", "v", "SELF", shift(pos, -1))}
        else:
            A |= org_vars
            if in_role:
                A |= {("sa", "rho", in_role, p_last if loop else ("last", 0)),
                      ("sa", "v", in_role, p_last if loop else ("last", 0))}
        return A
    if var == "v":
        A |= {("sa", "rho", "SELF", p_own), ("sa", "v", "SELF", p_own)}
        # the speed limit of this very segment, if it has one
        if index is not None and index in vsl:
            j = vsl.index(index)
            A.add(("sa", "v_ctrl", "SELF.vsl", ("only",) if len(vsl) == 1 else ("first", j)))
        if not first:
            A.add(("sa", "v", "SELF", shift(pos, -1)))
        else:
            if loop:
                A.add(("sa", "v", "SELF", p_last))
            elif in_role == "UIN":
                A.add(("sa", "v", "UIN", ("last", 0)))
            elif in_role == "UIN*":
                A |= {("sa", "v", "UIN*", ("last", 0)), ("sa", "rho", "UIN*", ("last", 0))}
            else:
                A.add(("sa", "v", "SELF", p_first))
            if cfg.delta and cfg.u_origin in ("MeteredOnRamp", "SimplifiedMeteredOnRamp") and cfg.u_in != 0:
                A |= org_vars
        if not last:
            A.add(("sa", "rho", "SELF", shift(pos, +1)))
        else:
            if cfg.d_dest == "Destination":
                A.add(("sa", "rho", "SELF", p_last))
            elif cfg.d_dest == "CongestedDestination":
                A |= {("sa", "rho", "SELF", p_last), ("s", "DST.d")}
            elif cfg.d_out == 1 and loop:
                A.add(("sa", "rho", "SELF", p_first))
            elif cfg.d_out == 1:
                A.add(("sa", "rho", "DOUT", ("first", 0)))
            else:
                A.add(("sa", "rho", "DOUT*", ("first", 0)))
        return A
    return A
