"""P-table: the METANET primitive formulas of Hegyi (2004), written once as builders
of terms (DESIGN.md section 2.1).  These are the oracle for the engine primitives;
they never look at the repository."""
from __future__ import annotations

from .. import expr as E
from ..expr import C, ONE, ZERO, add, div, fn, idx, mn, mul, mx, neg, pow_, sub

# parameter names of each primitive as declared by the abstract interface
# (engines/core.py); used to bind positional arguments by name.
PRIMS = {
    "nodes.get_upstream_flow": ["q_lasts", "beta", "betas", "q_orig"],
    "nodes.get_upstream_speed": ["q_lasts", "v_lasts"],
    "nodes.get_downstream_density": ["rho_firsts"],
    "links.get_flow": ["rho", "v", "lanes"],
    "links.step_density": ["rho", "q", "q_up", "lanes", "L", "T"],
    "links.step_speed": [
        "v", "v_up", "rho", "rho_down", "Veq", "lanes", "L", "tau", "eta", "kappa", "T",
        "q_ramp", "delta", "lanes_drop", "phi", "rho_crit",
    ],
    "links.Veq": ["rho", "v_free", "rho_crit", "a"],
    "links.controlled_Veq": ["rho", "v_ctrl", "vsl", "alpha", "v_free", "rho_crit", "a"],
    "origins.step_queue": ["w", "d", "q", "T"],
    "origins.get_mainstream_flow": ["d", "w", "v_ctrl", "v_first", "rho_crit", "a", "v_free", "lanes", "T"],
    "origins.get_ramp_flow": ["d", "w", "C", "r", "rho_max", "rho_first", "rho_crit", "T", "type"],
    "origins.get_simplifiedramp_flow": ["qdes", "d", "w", "C", "rho_max", "rho_first", "rho_crit", "T", "type"],
    "destinations.get_congestion_free_downstream_density": ["rho_last", "rho_crit"],
    "destinations.get_congested_downstream_density": ["rho_last", "rho_destination", "rho_crit"],
}
OPTIONAL = {
    "nodes.get_upstream_flow": ["q_orig"],
    "links.step_speed": ["q_ramp", "delta", "lanes_drop", "phi", "rho_crit"],
}
TYPES = {
    "origins.get_ramp_flow": ["out", "in"],
    "origins.get_simplifiedramp_flow": ["limited", "unlimited"],
}


def get_flow(rho, v, lanes):
    """(3.1) q = rho v lambda"""
    return mul(mul(rho, v), lanes)


def step_density(rho, q, q_up, lanes, L, T):
    """(3.2) rho+ = rho + T/(lambda L) (q_up - q)"""
    return add(rho, mul(div(T, mul(lanes, L)), sub(q_up, q)))


def Veq(rho, v_free, rho_crit, a):
    """(3.4) V = v_free exp(-1/a (rho/rho_crit)^a)"""
    return mul(v_free, fn("exp", mul(div(C(-1), a), pow_(div(rho, rho_crit), a))))


def controlled_Veq(rho, v_ctrl, vsl, alpha, v_free, rho_crit, a):
    """(3.11) on the segments with a sign: min(V(rho), (1+alpha) v_ctrl)"""
    V = Veq(rho, v_free, rho_crit, a)
    if isinstance(vsl, (list, tuple)):
        out = V
        for j, k in enumerate(vsl):
            out = ("upd", out, k, mn(idx(V, k), mul(add(ONE, alpha), idx(v_ctrl, j))))
        return out
    return ("updset", V, vsl, mn(("idxset", V, vsl), mul(add(ONE, alpha), v_ctrl)))


def step_speed(v, v_up, rho, rho_down, Veq, lanes, L, tau, eta, kappa, T,
               q_ramp=None, delta=None, lanes_drop=None, phi=None, rho_crit=None):
    """(3.3) relaxation + convection - anticipation; merging term at the first
    segment; lane-drop term at the last segment."""
    relaxation = mul(div(T, tau), sub(Veq, v))
    convection = mul(mul(div(T, L), v), sub(v_up, v))
    anticipation = div(mul(div(mul(eta, T), mul(tau, L)), sub(rho_down, rho)), add(rho, kappa))
    out = sub(add(add(v, relaxation), convection), anticipation)
    if q_ramp is not None and delta is not None:
        m = div(mul(mul(mul(delta, T), q_ramp), idx(v, 0)),
                mul(mul(L, lanes), add(idx(rho, 0), kappa)))
        out = ("upd", out, 0, sub(idx(out, 0), m))
    if lanes_drop is not None and phi is not None and rho_crit is not None:
        d = div(mul(mul(mul(mul(phi, T), lanes_drop), idx(rho, -1)), mul(idx(v, -1), idx(v, -1))),
                mul(mul(L, lanes), rho_crit))
        out = ("upd", out, -1, sub(idx(out, -1), d))
    return out


def step_queue(w, d, q, T):
    """w+ = w + T (d - q)"""
    return add(w, mul(T, sub(d, q)))


def space_term(rho_max, rho_first, rho_crit):
    return div(sub(rho_max, rho_first), sub(rho_max, rho_crit))


def get_ramp_flow(d, w, C_, r, rho_max, rho_first, rho_crit, T, type="out"):
    """(3.5) 'in' / (3.6) 'out'"""
    demand = add(d, div(w, T))
    t3 = space_term(rho_max, rho_first, rho_crit)
    if type == "in":
        return mn(demand, mul(C_, mn(r, t3)))
    if type == "out":
        return mul(r, mn(demand, mul(C_, mn(ONE, t3))))
    raise ValueError(type)


def get_simplifiedramp_flow(qdes, d=None, w=None, C_=None, rho_max=None, rho_first=None,
                            rho_crit=None, T=None, type="limited"):
    if type == "unlimited":
        return qdes
    if type == "limited":
        demand = add(d, div(w, T))
        t3 = mul(C_, mn(ONE, space_term(rho_max, rho_first, rho_crit)))
        return mn(qdes, mn(demand, t3))
    raise ValueError(type)


def get_mainstream_flow(d, w, v_ctrl, v_first, rho_crit, a, v_free, lanes, T):
    """section 3.3.3 with the repository's documented guard of the log ratio"""
    V_crit = Veq(rho_crit, v_free, rho_crit, a)
    v_lim = mn(v_ctrl, v_first)
    ratio = mx(C("0.05"), mn(ONE, div(v_lim, v_free)))
    q_speed = mul(mul(mul(lanes, v_lim), rho_crit), pow_(mul(neg(a), fn("log", ratio)), div(ONE, a)))
    q_cap = mul(mul(lanes, V_crit), rho_crit)
    q_lim = ("ite", ("cmp", "lt", v_lim, V_crit), q_speed, q_cap)
    return mn(add(d, div(w, T)), q_lim)


def get_congestion_free_downstream_density(rho_last, rho_crit):
    return mn(rho_last, rho_crit)


def get_congested_downstream_density(rho_last, rho_destination, rho_crit):
    return mx(mn(rho_last, rho_crit), rho_destination)


def get_upstream_flow(q_lasts, beta, betas, q_orig=None):
    """section 3.2.2: beta / sum(betas) * (sum(q_lasts) + q_orig)"""
    Q = ("sum", q_lasts)
    if q_orig is not None:
        Q = add(Q, q_orig)
    return mul(div(beta, ("sum", betas)), Q)


def get_upstream_speed(q_lasts, v_lasts):
    """(3.10) sum(v q) / sum(q)"""
    return div(("sum", mul(v_lasts, q_lasts)), ("sum", q_lasts))


def get_downstream_density(rho_firsts):
    """(3.9) sum(rho^2) / sum(rho)"""
    return div(("sum", mul(rho_firsts, rho_firsts)), ("sum", rho_firsts))


FORMULAS = {
    "nodes.get_upstream_flow": get_upstream_flow,
    "nodes.get_upstream_speed": get_upstream_speed,
    "nodes.get_downstream_density": get_downstream_density,
    "links.get_flow": get_flow,
    "links.step_density": step_density,
    "links.step_speed": step_speed,
    "links.Veq": Veq,
    "links.controlled_Veq": controlled_Veq,
    "origins.step_queue": step_queue,
    "origins.get_mainstream_flow": get_mainstream_flow,
    "origins.get_ramp_flow": get_ramp_flow,
    "origins.get_simplifiedramp_flow": get_simplifiedramp_flow,
    "destinations.get_congestion_free_downstream_density": get_congestion_free_downstream_density,
    "destinations.get_congested_downstream_density": get_congested_downstream_density,
}
