"""W-table: for each local-topology class, the model's next state of the stepped
link (rho+, v+) and of the origin at its upstream node (w+), as terms over the
same symbols the abstract world of `wire.py` uses (DESIGN.md section 2.2).

Written from Hegyi (2004), eqs. 3.1-3.11 and section 3.2.2; it does not look at
the repository."""
from __future__ import annotations

from .. import expr as E
from ..expr import C, ONE, S, V, ZERO, add, div, idx, mul, mx, slc, sub, vcat
from . import ptable as P


def _p(role, name):
    return S(f"{role}.{name}")


class Model:
    def __init__(self, cfg):
        self.cfg = cfg
        f = cfg.flags
        self.pi_v = "positive_init_speed" in f
        self.pi_rho = "positive_init_density" in f
        self.pi_w = "positive_init_queue" in f
        self.pn_v = "positive_next_speed" in f
        self.pn_rho = "positive_next_density" in f
        self.pn_w = "positive_next_queue" in f

    def r(self, role):
        """on a one-link ring the link is its own upstream and downstream neighbour"""
        if getattr(self.cfg, "selfloop", False) and role in ("UIN", "DOUT"):
            return "SELF"
        return role

    # ------------------------------------------------------------ variables
    def rho(self, role):
        role = self.r(role)
        t = V("rho", role)
        return mx(ZERO, t) if self.pi_rho else t

    def v(self, role):
        role = self.r(role)
        t = V("v", role)
        return mx(ZERO, t) if self.pi_v else t

    def w(self):
        t = S("ORG.w")
        return mx(ZERO, t) if self.pi_w else t

    def flow(self, role):
        role = self.r(role)
        return P.get_flow(self.rho(role), self.v(role), _p(role, "lam"))

    # ---------------------------------------------------------- origin flow
    def origin_flow(self):
        cfg = self.cfg
        o = cfg.u_origin
        if o is None:
            return None
        T = S("T")
        if o == "Origin":
            return idx(self.flow("SELF"), 0)
        if o == "MainstreamOrigin":
            return P.get_mainstream_flow(
                S("ORG.d"), self.w(), S("ORG.v_ctrl"), idx(self.v("SELF"), 0),
                _p("SELF", "rho_crit"), _p("SELF", "a"), _p("SELF", "v_free"), _p("SELF", "lam"), T,
            )
        if o == "MeteredOnRamp":
            return P.get_ramp_flow(
                S("ORG.d"), self.w(), S("ORG.C"), S("ORG.r"), _p("SELF", "rho_max"),
                idx(self.rho("SELF"), 0), _p("SELF", "rho_crit"), T, cfg.u_otype,
            )
        if o == "SimplifiedMeteredOnRamp":
            return P.get_simplifiedramp_flow(
                S("ORG.q"), S("ORG.d"), self.w(), S("ORG.C"), _p("SELF", "rho_max"),
                idx(self.rho("SELF"), 0), _p("SELF", "rho_crit"), T, cfg.u_otype,
            )
        raise ValueError(o)

    def has_queue(self):
        return self.cfg.u_origin in ("MainstreamOrigin", "MeteredOnRamp", "SimplifiedMeteredOnRamp")

    def queue_next(self):
        if not self.has_queue():
            return None
        w = P.step_queue(self.w(), S("ORG.d"), self.origin_flow(), S("T"))
        return mx(ZERO, w) if self.pn_w else w

    # ------------------------------------------------------- node quantities
    def upstream(self):
        """(v0, q0): virtual upstream speed and inflow of SELF at node U"""
        cfg = self.cfg
        q_o = self.origin_flow()
        if cfg.u_in == 0:
            v0 = idx(self.v("SELF"), 0)  # origin speed = first segment of its link
            Q = q_o
        elif cfg.u_in == 1:
            v0 = idx(self.v("UIN"), -1)
            Q = idx(self.flow("UIN"), -1)
            if q_o is not None:
                Q = add(Q, q_o)
        else:
            ql = ("fam", "In(U)", idx(self.flow("UIN*"), -1))
            vl = ("fam", "In(U)", idx(self.v("UIN*"), -1))
            v0 = P.get_upstream_speed(ql, vl)
            Q = ("sum", ql)
            if q_o is not None:
                Q = add(Q, q_o)
        if cfg.u_out == 1:
            q0 = Q
        else:
            betas = ("fam", "Out(U)", _p("UOUT*", "turnrate"))
            q0 = mul(div(_p("SELF", "turnrate"), ("sum", betas)), Q)
        return v0, q0

    def downstream(self):
        cfg = self.cfg
        if cfg.d_dest == "Destination":
            return P.get_congestion_free_downstream_density(
                idx(self.rho("SELF"), -1), _p("SELF", "rho_crit"))
        if cfg.d_dest == "CongestedDestination":
            return P.get_congested_downstream_density(
                idx(self.rho("SELF"), -1), S("DST.d"), _p("SELF", "rho_crit"))
        if cfg.d_out == 1:
            return idx(self.rho("DOUT"), 0)
        rf = ("fam", "Out(D)", idx(self.rho("DOUT*"), 0))
        return P.get_downstream_density(rf)

    # ------------------------------------------------------------ link step
    def link_next(self):
        cfg = self.cfg
        rho, v = self.rho("SELF"), self.v("SELF")
        lam, L = _p("SELF", "lam"), _p("SELF", "L")
        T = S("T")
        q = self.flow("SELF")
        v0, q0 = self.upstream()
        rhoN1 = self.downstream()
        if cfg.n1:
            q_up, v_up, rho_down = q0, v0, rhoN1
        else:
            q_up = vcat(q0, slc(q, None, -1))
            v_up = vcat(v0, slc(v, None, -1))
            rho_down = vcat(slc(rho, 1, None), rhoN1)
        rho_next = P.step_density(rho, q, q_up, lam, L, T)
        if cfg.link_cls == "LinkWithVsl":
            vsl = [0] if cfg.n1 else [1, 3]  # the concrete limited segments of wire.py
            if getattr(cfg, "vsl_empty", False):
                vsl = []
            Veq = P.controlled_Veq(
                rho, V("v_ctrl", "SELF.vsl"), vsl, _p("SELF", "alpha"),
                _p("SELF", "v_free"), _p("SELF", "rho_crit"), _p("SELF", "a"))
        else:
            Veq = P.Veq(rho, _p("SELF", "v_free"), _p("SELF", "rho_crit"), _p("SELF", "a"))
        q_ramp = None
        delta = S("delta") if cfg.delta else None
        if cfg.delta and cfg.u_origin in ("MeteredOnRamp", "SimplifiedMeteredOnRamp") and cfg.u_in != 0:
            q_ramp = self.origin_flow()
        phi = S("phi") if cfg.phi else None
        lanes_drop = None
        if cfg.phi and cfg.d_out == 1 and cfg.d_dest is None:
            lanes_drop = sub(lam, _p(self.r("DOUT"), "lam"))
        v_next = P.step_speed(
            v, v_up, rho, rho_down, Veq, lam, L, S("tau"), S("eta"), S("kappa"), T,
            q_ramp, delta, lanes_drop, phi, _p("SELF", "rho_crit"))
        if self.pn_rho:
            rho_next = mx(ZERO, rho_next)
        if self.pn_v:
            v_next = mx(ZERO, v_next)
        return {"rho": rho_next, "v": v_next}

    def expected(self):
        out = {"SELF": self.link_next()}
        qn = self.queue_next()
        if qn is not None:
            out["ORG"] = {"w": qn}
        return out
