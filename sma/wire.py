"""WIRE - abstract interpretation of the element layer over local-topology classes.

A configuration fixes the class of the stepped link, N in {1, >=2}, the class of
its upstream node U (number of entering links 0 / 1 / >=2, kind of origin, number of
leaving links 1 / >=2) and of its downstream node D (kind of destination or number
of leaving links 1 / >=2), which optional model parameters are given and the six
positivity flags.  `Network.step` itself is interpreted on the abstract network of
that configuration.
"""
from __future__ import annotations

import ast
import itertools
from dataclasses import dataclass, field, replace
from typing import Any, Optional

from . import expr as E
from .front import AnalysisError, Program, short
from .interp import (
    AbsInt, Builtin, ClassV, Coll, Event, ExtMod, FuncV, IndexSet, Interp, Obj,
    Raised, TV,
)

NET = "sym_metanet.network:Network"
NODE = "sym_metanet.blocks.nodes:Node"
LINK = "sym_metanet.blocks.links:Link"
LINKVSL = "sym_metanet.blocks.links:LinkWithVsl"
ORIGINS = "sym_metanet.blocks.origins"
DESTS = "sym_metanet.blocks.destinations"
ENGINE_CLS = {
    "numpy": "sym_metanet.engines.numpy:Engine",
    "casadi": "sym_metanet.engines.casadi:Engine",
}
PRIM_BASES = (
    "sym_metanet.engines.core:NodesEngineBase",
    "sym_metanet.engines.core:LinksEngineBase",
    "sym_metanet.engines.core:OriginsEngineBase",
    "sym_metanet.engines.core:DestinationsEngineBase",
)
FLAGS = (
    "positive_init_speed", "positive_init_density", "positive_init_queue",
    "positive_next_speed", "positive_next_density", "positive_next_queue",
)


@dataclass(frozen=True)
class Config:
    link_cls: str = "Link"  # Link / LinkWithVsl
    n1: bool = False
    u_in: Any = 1  # 0 / 1 / 'many'
    u_origin: Optional[str] = None
    u_otype: Optional[str] = None
    u_out: Any = 1  # 1 / 'many'
    d_dest: Optional[str] = None
    d_out: Any = 1  # 0 / 1 / 'many'
    d_in: Any = 1  # 1 / 'many'  (entering links of D; SELF is one of them)
    delta: bool = False
    phi: bool = False
    flags: frozenset = frozenset()
    engine_arg: str = "explicit"  # explicit / current
    impl: str = "casadi"  # numpy / casadi
    init: str = "engine"  # engine / user
    nbr_vsl: bool = False  # neighbour links are LinkWithVsl
    history: tuple = ()  # earlier Network.step calls on the same objects: ((flags, engine_arg), ...)
    vsl_empty: bool = False  # LinkWithVsl without any sign installed (segments_with_vsl = {})
    selfloop: bool = False  # the link leaves and enters the same node (a one-link ring); then
    #                         In(U) = Out(U) = {SELF} and the roles UIN / DOUT are SELF itself

    def label(self) -> str:
        o = self.u_origin or "-"
        if self.u_otype:
            o += f"({self.u_otype})"
        return (
            f"{self.link_cls}{'[N=1]' if self.n1 else ('[N=4,vsl=' + ('none' if self.vsl_empty else '1,3') + ']' if self.link_cls == 'LinkWithVsl' else '[N>=2]')} "
            f"{'SELF-LOOP ' if self.selfloop else ''}U(in={self.u_in},origin={o},out={self.u_out}) "
            f"D(in={self.d_in},dest={self.d_dest or '-'},out={self.d_out})"
            f"{' delta' if self.delta else ''}{' phi' if self.phi else ''}"
            f"{' flags=' + ','.join(sorted(f.replace('positive_', '') for f in self.flags)) if self.flags else ''}"
            f" engine={self.engine_arg}/{self.impl} init={self.init}"
            + (f" after {len(self.history)} earlier step(s) with other options" if self.history else "")
        )

    def has_queue(self) -> bool:
        return self.u_origin in ("MainstreamOrigin", "MeteredOnRamp", "SimplifiedMeteredOnRamp")


RAMPS = ("MeteredOnRamp", "SimplifiedMeteredOnRamp")


def node_valid(has_o, ramp, has_d, n_in, n_out) -> bool:
    """V-table (DESIGN 2.4) over abstract cardinalities 0 / 1 / 'many'."""
    ge1 = lambda n: n != 0  # noqa: E731
    ge2 = lambda n: n == "many"  # noqa: E731
    if has_o and has_d:
        return False
    if n_in == 0 and n_out == 0:
        return False
    if n_in == 0 and not has_o:
        return False
    if n_out == 0 and not has_d:
        return False
    if has_o and not ramp and ge1(n_in):
        return False
    if has_o and ge2(n_out):
        return False
    if has_d and ge2(n_in):
        return False
    if has_d and ge1(n_out):
        return False
    return True


def u_configs():
    out = []
    for n_in in (1, "many"):
        for n_out in (1, "many"):
            out.append((n_in, None, None, n_out))
    for o in ("Origin", "MainstreamOrigin"):
        out.append((0, o, None, 1))
    for n_in in (0, 1, "many"):
        for t in ("out", "in"):
            out.append((n_in, "MeteredOnRamp", t, 1))
        for t in ("limited", "unlimited"):
            out.append((n_in, "SimplifiedMeteredOnRamp", t, 1))
    for n_in, o, t, n_out in out:
        assert node_valid(o is not None, o in RAMPS, False, n_in, n_out)
    return out


def d_configs():
    out = [("Destination", 0, 1), ("CongestedDestination", 0, 1), (None, 1, 1), (None, "many", 1),
           (None, 1, "many"), (None, "many", "many")]
    for d, n_out, n_in in out:
        assert node_valid(False, False, d is not None, n_in, n_out)
    return out


def enumerate_configs(tier: str, impls=("casadi", "numpy"), flags_mode="none"):
    """Base configurations (flags off).  quick: both link classes, both N classes,
    every valid U and D class, delta/phi both on and both off.  thorough adds the
    mixed delta/phi cases, user-supplied initial conditions and VSL neighbours."""
    cfgs = []
    for impl in impls:
        for link_cls in ("Link", "LinkWithVsl"):
            for n1 in (False, True):
                for (u_in, uo, ut, u_out) in u_configs():
                    for (dd, d_out, d_in) in d_configs():
                        dps = [(True, True), (False, False)]
                        if tier == "thorough":
                            dps += [(True, False), (False, True)]
                        for delta, phi in dps:
                            cfgs.append(
                                Config(link_cls, n1, u_in, uo, ut, u_out, dd, d_out, d_in, delta, phi, impl=impl)
                            )
    # a few user-initialised / default-engine configurations in every tier
    seeds = [
        Config(u_in=1, u_origin="MeteredOnRamp", u_otype="out", d_out=1, delta=True, phi=True),
        Config(link_cls="LinkWithVsl", u_in="many", u_out="many", d_out="many", d_in="many", delta=True, phi=True),
        Config(link_cls="LinkWithVsl", u_in=0, u_origin="MainstreamOrigin", d_dest="CongestedDestination", d_out=0, n1=True),
        Config(u_in="many", u_origin="SimplifiedMeteredOnRamp", u_otype="limited", d_dest="Destination", d_out=0, delta=True),
        Config(u_in=0, u_origin="Origin", d_out=1, phi=True),
        Config(link_cls="LinkWithVsl", vsl_empty=True, u_in=1, d_out=1, delta=True, phi=True),
        Config(u_in=1, u_origin="SimplifiedMeteredOnRamp", u_otype="unlimited", d_out="many", delta=True),
    ]
    for impl in impls:
        for b in seeds:
            cfgs.append(replace(b, impl=impl, init="user"))
            cfgs.append(replace(b, impl=impl, engine_arg="current"))
            cfgs.append(replace(b, impl=impl, init="user", engine_arg="current"))
            cfgs.append(replace(b, impl=impl, init="partial"))
            if impl == "numpy":
                cfgs.append(replace(b, impl=impl, init="user0"))
    # one-link rings (valid: a node with one entering and one leaving link, optionally a ramp)
    for impl in impls:
        for (uo, ut) in ((None, None), ("MeteredOnRamp", "out"), ("MeteredOnRamp", "in"),
                         ("SimplifiedMeteredOnRamp", "limited"), ("SimplifiedMeteredOnRamp", "unlimited")):
            for n1 in (False, True):
                for lc in ("Link", "LinkWithVsl"):
                    if lc == "LinkWithVsl" and (n1 or uo == "MeteredOnRamp"):
                        continue
                    cfgs.append(Config(link_cls=lc, n1=n1, u_in=1, u_origin=uo, u_otype=ut, u_out=1, d_out=1, d_in=1,
                                       delta=True, phi=True, impl=impl, selfloop=True))
    if tier == "thorough":
        extra = []
        for c in cfgs:
            if c.delta and c.phi and c.link_cls == "Link":
                extra.append(replace(c, init="user"))
                extra.append(replace(c, engine_arg="current"))
            # (neighbour links of class LinkWithVsl are not enumerated: they are analysed on a
            # concrete segment count, which the position classes of the neighbour tables do not
            # use; what a link with signs does as somebody's neighbour is Link's inherited code -
            # C18 `vsl-class-diff`)
        cfgs += extra
    return cfgs


# ------------------------------------------------------------------- world
class AbsMap:
    def __init__(self, name, contains, getitem, keys=None):
        self.name = name
        self._contains = contains
        self._getitem = getitem
        self._keys = keys


class AbsView:
    def __init__(self, kind, fn):
        self.kind = kind
        self.fn = fn


@dataclass
class Result:
    cfg: Config
    path: tuple  # decisions taken
    assumptions: list  # (term, bool, node text)
    outputs: dict  # element role -> {state name: term} (next_states)
    events: list
    raised: Optional[Raised]
    prims: list  # primitive call events
    states: dict  # role -> dict of state terms
    world: Any = None
    error: Optional[str] = None
    final_path: tuple = ()  # the decisions of the last step only (= path without earlier steps)
    final_assumptions: list = field(default_factory=list)


class World:
    memo_start = 0
    final_start = 0

    def __init__(self, prog: Program, cfg: Config, decisions=()):
        self.prog = prog
        self.cfg = cfg
        self.impl = cfg.impl
        self.env = E.Env({"SELF": cfg.n1})
        self.decisions = list(decisions)
        self.trace: list = []
        self.assumptions: list = []
        self.owned: set = set()
        self.memo_start = 0  # index in `assumptions` where the current step's decisions begin
        self.final_start = 0  # index in `trace` where the last step's decisions begin
        self.containers_keepalive: list = []
        self.prims: list = []
        self._build()
        self.build_engines()

    # --------------------------------------------------------------- build
    def _param(self, role, name):
        return TV(E.S(f"{role}.{name}"), 0, fresh=False, origin=f"parameter {name} of {role}")

    def _link(self, role, cls_fq, n1=False):
        """n1: True -> one segment, False -> abstract N >= 2, int -> that many segments"""
        o = Obj(cls_fq, role, kind="link")
        o.attrs["name"] = role
        if n1 is True:
            o.attrs["N"] = 1
        elif n1 is False or n1 is None:
            o.attrs["N"] = AbsInt("N", link=role)
        else:
            o.attrs["N"] = int(n1)
        for p in ("lam", "L", "rho_max", "rho_crit", "v_free", "a", "turnrate"):
            o.attrs[p] = self._param(role, p)
        for g in ("states", "next_states", "actions", "disturbances"):
            o.attrs[g] = None
        if cls_fq == LINKVSL:
            # links with speed limits are analysed with a concrete segment count and a
            # concrete, non-leading set of limited segments (so loops over `vsl`, ordinal
            # vs. position confusions etc. are visible): N = 4 -> segments 1 and 3
            if not isinstance(o.attrs["N"], int):
                o.attrs["N"] = 4
            nn = o.attrs["N"]
            o.attrs["vsl"] = sorted({min(1, nn - 1), nn - 1})
            if role == "SELF" and getattr(self.cfg, "vsl_empty", False):
                o.attrs["vsl"] = []
            o.attrs["alpha"] = self._param(role, "alpha")
            self.env.n1[role] = nn
            self.env.n1[role + ".vsl"] = len(o.attrs["vsl"])
        return o

    def _build(self):
        cfg = self.cfg
        self.net = Obj(NET, "net", kind="net")
        self.net.attrs["name"] = "net"
        self.U = Obj(NODE, "U", kind="node")
        self.D = Obj(NODE, "D", kind="node")
        self.U.attrs["name"] = "U"
        self.D.attrs["name"] = "D"
        nbr = LINKVSL if cfg.nbr_vsl else LINK
        self.SELF = self._link("SELF", LINKVSL if cfg.link_cls == "LinkWithVsl" else LINK, cfg.n1)
        self.links = [self.SELF]
        X = Obj(NODE, "X", kind="node")  # far end of neighbour links
        if cfg.selfloop:
            if (cfg.u_in, cfg.u_out, cfg.d_out, cfg.d_in, cfg.d_dest) != (1, 1, 1, 1, None):
                raise AnalysisError("a self-loop configuration has In(U) = Out(U) = {SELF}")
            self.D = self.U
            loop = [(self.U, self.U, self.SELF)]
            self.u_in = Coll("In", self.U, 1, loop, "In(U)")
            self.u_out = Coll("Out", self.U, 1, list(loop), "Out(U)")
            self.d_out = Coll("Out", self.U, 1, list(loop), "Out(U)")
            self.d_in = Coll("In", self.U, 1, list(loop), "In(U)")
        # entering links of U
        if cfg.selfloop:
            pass
        elif cfg.u_in == 0:
            self.u_in = Coll("In", self.U, 0, [], "In(U)")
        elif cfg.u_in == 1:
            l = self._link("UIN", nbr)
            self.links.append(l)
            self.u_in = Coll("In", self.U, 1, [(X, self.U, l)], "In(U)")
        else:
            l = self._link("UIN*", nbr)
            self.links.append(l)
            self.u_in = Coll("In", self.U, "many", [(X, self.U, l)], "In(U)")
        # leaving links of U (SELF is one of them)
        if cfg.selfloop:
            pass
        elif cfg.u_out == 1:
            self.u_out = Coll("Out", self.U, 1, [(self.U, self.D, self.SELF)], "Out(U)")
        else:
            l = self._link("UOUT*", nbr)
            self.links.append(l)
            self.u_out = Coll("Out", self.U, "many", [(self.U, X, l)], "Out(U)")
        # leaving links of D
        if cfg.selfloop:
            pass
        elif cfg.d_out == 0:
            self.d_out = Coll("Out", self.D, 0, [], "Out(D)")
        elif cfg.d_out == 1:
            l = self._link("DOUT", nbr)
            self.links.append(l)
            self.d_out = Coll("Out", self.D, 1, [(self.D, X, l)], "Out(D)")
        else:
            l = self._link("DOUT*", nbr)
            self.links.append(l)
            self.d_out = Coll("Out", self.D, "many", [(self.D, X, l)], "Out(D)")
        # entering links of D: SELF (+ possibly others; only the destination asks)
        if cfg.selfloop:
            pass
        elif cfg.d_in == 1:
            self.d_in = Coll("In", self.D, 1, [(self.U, self.D, self.SELF)], "In(D)")
        else:
            l = self._link("DIN*", nbr)
            self.links.append(l)
            self.d_in = Coll("In", self.D, "many", [(X, self.D, l)], "In(D)")
        # origin / destination
        self.ORG = None
        if cfg.u_origin:
            self.ORG = Obj(f"{ORIGINS}:{cfg.u_origin}", "ORG", kind="origin")
            self.ORG.attrs["name"] = "ORG"
            for g in ("states", "next_states", "actions", "disturbances"):
                self.ORG.attrs[g] = None
            if cfg.u_origin in RAMPS:
                self.ORG.attrs["C"] = self._param("ORG", "C")
                self.ORG.attrs["flow_eq_type"] = cfg.u_otype
        self.DST = None
        if cfg.d_dest:
            self.DST = Obj(f"{DESTS}:{cfg.d_dest}", "DST", kind="dest")
            self.DST.attrs["name"] = "DST"
            for g in ("states", "next_states", "actions", "disturbances"):
                self.DST.attrs[g] = None
        self.roles = {o.ident: o for o in self.links}
        if self.ORG:
            self.roles["ORG"] = self.ORG
        if self.DST:
            self.roles["DST"] = self.DST
        # engines
        self.EXPL = Obj(ENGINE_CLS[cfg.impl], "ENGINE", kind="engine")
        self.CUR = Obj(ENGINE_CLS[cfg.impl], "CURRENT-ENGINE", kind="engine")
        self.current = self.CUR
        # caller-supplied containers (never registered as owned)
        self.init_conditions = None
        if cfg.init in ("user", "user0"):
            self.init_conditions = {}
            for o in self.links:
                # (the caller's dictionaries list the variables in an order of their own)
                d = {}
                if o.cls == LINKVSL:
                    d["v_ctrl"] = TV(E.V("v_ctrl", o.ident + ".vsl") if o.attrs["vsl"] else E.vcat(), 1, False,
                                     "caller array v_ctrl")
                d["v"] = self._state("v", o, caller=True)
                d["rho"] = self._state("rho", o, caller=True)
                self.init_conditions[o] = d
            if self.ORG is not None and cfg.u_origin != "Origin":
                d = {k: self._scalar_var(k, self.ORG, caller=True) for k in ("q", "v_ctrl", "r", "d", "w")}
                self.init_conditions[self.ORG] = d
            if self.DST is not None and cfg.d_dest == "CongestedDestination":
                self.init_conditions[self.DST] = {"d": self._scalar_var("d", self.DST, caller=True)}
        elif cfg.init == "partial":
            # the caller supplies only some of the variables; the engine creates the others
            self.init_conditions = {}
            for o in self.links:
                self.init_conditions[o] = {"v": self._state("v", o, caller=True)}
            if self.ORG is not None and cfg.u_origin != "Origin":
                self.init_conditions[self.ORG] = {"d": self._scalar_var("d", self.ORG, caller=True)}
        self.other = {
            "T": TV(E.S("T"), 0, False, "parameter T"),
            "tau": TV(E.S("tau"), 0, False, "parameter tau"),
            "eta": TV(E.S("eta"), 0, False, "parameter eta"),
            "kappa": TV(E.S("kappa"), 0, False, "parameter kappa"),
        }
        if cfg.delta:
            self.other["delta"] = TV(E.S("delta"), 0, False, "parameter delta")
        if cfg.phi:
            self.other["phi"] = TV(E.S("phi"), 0, False, "parameter phi")

    def _state(self, var, o: Obj, caller=False):
        return TV(E.V(var, o.ident), 1, False,
                  ("caller array " if caller else "state ") + f"{var} of {o.ident}")

    def _scalar_var(self, var, o: Obj, caller=False):
        if caller and self.cfg.init == "user0":
            # a numpy scalar / 0-d array (e.g. `w_trajectory[k]`)
            return TV(E.S(f"{o.ident}.{var}"), 0, False, f"caller scalar {var} of {o.ident}")
        return TV(E.S(f"{o.ident}.{var}"), 1, False,
                  ("caller array " if caller else "variable ") + f"{var} of {o.ident}")

    # ------------------------------------------------------ interp callbacks
    def iterate(self, it: Interp, v, node):
        if isinstance(v, AbsMap):
            if v._keys is None:
                raise it.err(node, f"iteration over abstract map {v.name}")
            return list(v._keys())
        if isinstance(v, AbsView):
            if v.kind == "links":
                return [(self.U, self.D, self.SELF)]
            return None
        return None

    def all_links_collection(self, it, node):
        if getattr(self, "_anylink", None) is None:
            X = Obj(NODE, "X", kind="node")
            l = self._link("ANY*", LINK)
            l.attrs["states"] = {"rho": self._state("rho", l), "v": self._state("v", l)}
            self._anylink = Coll("All", None, "many", [(X, X, l)], "AllLinks")
        it.event("iterates-all-links", node,
                 "a link view is iterated without a node: every link of the network takes part, not only "
                 "the links entering / leaving this node")
        return self._anylink

    def _unused(self, it, v, node):
        if False:
            pass
        return None

    def on_setattr(self, it, o, attr, v, node):
        if o.kind in ("link", "origin", "dest") and attr in ("states", "next_states", "actions", "disturbances") \
                and isinstance(v, dict) and id(v) not in self.owned:
            it.event("state-dict-aliased", node,
                     f"`{short(node, 60)}` keeps a dictionary supplied by the caller as `{attr}` of {o.ident}: handing "
                     "an element's own next_states back as initial conditions makes states and next_states one "
                     "object, so stepping overwrites the current state while other elements still read it")
        if o.kind in ("link", "origin", "dest") and attr in (
            "lam", "L", "rho_max", "rho_crit", "v_free", "a", "turnrate", "C", "N",
            "flow_eq_type", "alpha", "vsl", "name",
        ):
            it.event("param-store", node, f"element parameter `{attr}` of {o.ident} is overwritten during stepping")
        if o.kind == "engine" and not getattr(self, "_constructing", False):
            it.event("extra-attr-store", node, f"attribute `{attr}` stored on the engine during stepping")
        if o.kind in ("link", "origin", "dest", "node", "net") and attr not in (
            "states", "next_states", "actions", "disturbances",
            "lam", "L", "rho_max", "rho_crit", "v_free", "a", "turnrate", "C", "N",
            "flow_eq_type", "alpha", "vsl", "name",
        ):
            it.event("extra-attr-store", node, f"attribute `{attr}` stored on {o.ident} during stepping")

    def on_module_store(self, it, modname, attr, v, node):
        if modname == "sym_metanet" and attr == "engine":
            it.event("selection-store", node, "the engine selection `sym_metanet.engine` is stored")
            self.current = v
            return None
        return NotImplemented

    def module_attr(self, it, modname, attr, node):
        if modname == "sym_metanet" and attr == "engine":
            return self.current
        return NotImplemented

    def is_element_dict(self, d) -> bool:
        """one of the states / next_states / actions / disturbances dicts of an element of the network"""
        for o in self.roles.values():
            for g in ("states", "next_states", "actions", "disturbances"):
                if o.attrs.get(g) is d:
                    return True
        return False

    def on_new_container(self, it, d, node):
        self.owned.add(id(d))
        self.containers_keepalive.append(d)

    def on_container_mutation(self, it, c, node, how):
        if id(c) not in self.owned:
            it.event("mutates-caller-container", node,
                     f"`{short(node, 60)}` mutates a dictionary supplied by the caller ({how})")

    def decide(self, it, v: TV, node):
        """Truth value of a symbolic condition: explored both ways (path forking)."""
        it.event("symbolic-truth", node,
                 f"python truth value of symbolic `{short(node, 60)}`", data=v.t)
        for t, c, _ in self.assumptions[self.memo_start:]:
            if t == v.t:
                return c  # the same condition was decided before in this step
        i = len(self.trace)
        choice = self.decisions[i] if i < len(self.decisions) else True
        self.trace.append(choice)
        self.assumptions.append((v.t, choice, short(node, 60)))
        return choice

    def contains(self, it, container, item, node):
        if isinstance(container, AbsMap):
            return container._contains(item)
        return None

    def getitem(self, it, c, k, node):
        if isinstance(c, AbsMap):
            try:
                return c._getitem(k)
            except KeyError:
                raise Raised("KeyError", node, it.stack[-1].fi, f"{c.name}[{k!r}]")
        return NotImplemented

    def getattr(self, it, o, attr, node):
        if isinstance(o, Obj) and attr in ("next_states", "has_next_states") and it.stack:
            fi = it.stack[-1].fi
            names = [(f.fi.name if f.fi else "<module>") for f in it.stack]
            # reads made by the bookkeeping of an element's `step` (the frame `step` and what it
            # calls outside `step_dynamics`) store / test the results; any other read is the
            # dynamics (or the network loop) looking at the previous step's results
            book = False
            if "step" in names:
                i = len(names) - 1 - names[::-1].index("step")
                owner = it.stack[i].fi
                book = owner is not None and owner.cls is not None and owner.cls.endswith(":ElementWithVars") \
                    and "step_dynamics" not in names[i:]
            it.event("next-states-read", node, f"`{attr}` of {o.ident} read in {fi.qualname if fi else '<module>'}",
                     data=((fi.qualname if fi else "<module>"), book))
        if isinstance(o, Obj) and o.kind == "net":
            return self._net_attr(it, attr, node)
        if isinstance(o, Obj) and o.kind == "engine":
            if attr in ("nodes", "links", "origins", "destinations"):
                m = self.prog.lookup_method(o.cls, attr)
                if m is None:
                    raise Raised("AttributeError", node, it.stack[-1].fi, attr)
                cv = it.call_function(FuncV(m, o, defcls=m.cls), [], {}, node)
                if not isinstance(cv, ClassV):
                    raise it.err(node, f"engine.{attr} does not evaluate to a class")
                return ClassV(cv.fq, via=o)
            m = self.prog.lookup_method(o.cls, attr)
            if m is not None and not m.is_property():
                return FuncV(m, o, via=o, defcls=m.cls)
        if isinstance(o, AbsMap):
            if attr == "items" and o._keys is not None:
                return _Bound(lambda: [(k, o._getitem(k)) for k in o._keys()])
            if attr == "keys" and o._keys is not None:
                return _Bound(lambda: list(o._keys()))
            if attr == "values" and o._keys is not None:
                return _Bound(lambda: [o._getitem(k) for k in o._keys()])
            if attr == "get":
                return _Bound(lambda k, d=None: o._getitem(k) if o._contains(k) else d)
        return NotImplemented

    def _net_attr(self, it, attr, node):
        cfg = self.cfg
        if attr == "nodes_by_link":
            def gi(l):
                if l is self.SELF:
                    return (self.U, self.D)
                raise KeyError(l)
            return AbsMap(attr, lambda l: l is self.SELF, gi)
        if attr == "origins_by_node":
            def gi(n):
                if n is self.U and self.ORG is not None:
                    return self.ORG
                raise KeyError(n)
            return AbsMap(attr, lambda n: n is self.U and self.ORG is not None, gi,
                          keys=lambda: [self.U] if self.ORG is not None else [])
        if attr == "destinations_by_node":
            def gi(n):
                if n is self.D and self.DST is not None:
                    return self.DST
                raise KeyError(n)
            return AbsMap(attr, lambda n: n is self.D and self.DST is not None, gi,
                          keys=lambda: [self.D] if self.DST is not None else [])
        if attr == "origins":
            def gi(o):
                if o is self.ORG and o is not None:
                    return self.U
                raise KeyError(o)
            return AbsMap(attr, lambda o: o is self.ORG and o is not None, gi,
                          keys=lambda: [self.ORG] if self.ORG is not None else [])
        if attr == "destinations":
            def gi(o):
                if o is self.DST and o is not None:
                    return self.D
                raise KeyError(o)
            return AbsMap(attr, lambda o: o is self.DST and o is not None, gi,
                          keys=lambda: [self.DST] if self.DST is not None else [])
        if attr == "in_links":
            return AbsView("in", self._in_links)
        if attr in ("out_links",):
            return AbsView("out", self._out_links)
        if attr == "links":
            return AbsView("links", self._out_links)
        if attr == "elements":
            els = list(self.links)
            if self.ORG is not None:
                els.append(self.ORG)
            if self.DST is not None:
                els.append(self.DST)
            return els
        if attr in ("nodes", "nodes_by_name", "links_by_name", "origins_by_name",
                    "destinations_by_name", "graph", "G", "asgraph", "_graph", "name"):
            it.event("net-lookup", node, f"dynamics read `net.{attr}`")
            if attr == "name":
                return "net"
            raise it.err(node, f"net.{attr} is not modelled in the dynamics")
        # methods of Network (step) are resolved normally
        return NotImplemented

    def _in_links(self, n):
        if n is self.U:
            return self.u_in
        if n is self.D:
            return self.d_in
        raise AnalysisError(f"in_links of an unexpected node {n!r}")

    def _out_links(self, n):
        if n is self.U:
            return self.u_out
        if n is self.D:
            return self.d_out
        raise AnalysisError(f"out_links of an unexpected node {n!r}")

    def call_value(self, it, f, args, kwargs, node):
        if isinstance(f, AbsView):
            if len(args) != 1 or kwargs:
                raise it.err(node, "per-node view called with an unexpected shape")
            if not isinstance(args[0], Obj) or args[0].kind != "node":
                it.event("view-arg", node, f"link view called with a non-node argument {args[0]!r}")
                raise it.err(node, "link view called with a non-node")
            return f.fn(args[0])
        if isinstance(f, _Bound):
            return f.fn(*args, **kwargs)
        return NotImplemented

    def construct(self, it, cv, args, kwargs, node):
        return NotImplemented

    def isinstance_ext(self, it, o, k, node):
        if k.name in ("numpy.ndarray",):
            return isinstance(o, TV) and o.rank == 1
        if k.name in ("casadi.SX", "casadi.MX", "casadi.DM"):
            return isinstance(o, TV) and self.impl == "casadi"
        return False

    def call_ext(self, it, name, args, kwargs, node):
        if name in ("numpy.empty", "numpy.zeros", "numpy.ones", "numpy.full", "numpy.random.rand",
                    "numpy.random.randn", "numpy.random.random", "casadi.SX.sym", "casadi.MX.sym"):
            return self.fresh_array(it, name, node)
        return NotImplemented

    def intercept_call(self, it: Interp, f: FuncV, args, kwargs, node):
        fi = f.fi
        if fi.module == "sym_metanet.engines.core" and fi.qualname == "get_current_engine":
            it.event("current-engine", node, "get_current_engine() called")
            return self.current
        if fi.cls is not None:
            # engine.var -> fresh symbol of the element that asks
            if fi.name == "var" and isinstance(f.self_obj, Obj) and f.self_obj.kind == "engine":
                return self._var(it, f, args, kwargs, node)
            if fi.name in ("vcat", "max") and isinstance(f.self_obj, Obj) and f.self_obj.kind == "engine":
                self.prims.append(("engine." + fi.name, f.self_obj, _where(it, node), None))
            # (a primitive may be inherited from a mixin: what counts is the engine class it is
            # called through)
            acc = f.acc_cls if f.acc_cls in self.prog.classes else fi.cls
            if any(self.prog.is_subclass(acc, b) for b in PRIM_BASES if b in self.prog.classes):
                env = None
                try:
                    env = it.bind_args(f, args, kwargs, node)
                except Raised:
                    raise
                self.prims.append((f"{acc.split(':')[1]}.{fi.name}", f.via, _where(it, node), env))
        return NotImplemented

    # ------------------------------------------------------------- engines
    def build_engines(self):
        """EXPL / CUR are constructed by interpreting the engine's __init__; a third
        engine of the *other* flavour is constructed afterwards, as a program that holds
        several engines would do."""
        self.class_overlay = {}
        it = Interp(self.prog, self, lib_semantics=self.impl)
        self._constructing = True
        try:
            for o, arg in ((self.EXPL, None), (self.CUR, None), (Obj(ENGINE_CLS[self.impl], "OTHER-ENGINE", kind="engine"), "other")):
                init = self.prog.lookup_method(o.cls, "__init__")
                if init is None:
                    continue
                if self.impl == "casadi":
                    st = getattr(self, "sym_type", "SX")
                    if arg == "other":
                        st = "MX" if st == "SX" else "SX"
                    o.attrs["__nominal__"] = st
                    it.call_function(FuncV(init, o, defcls=init.cls), [st], {})
                else:
                    it.call_function(FuncV(init, o, defcls=init.cls), [], {})
        except Raised as e:
            raise AnalysisError(f"engine construction raises {e.exc}: {e.msg}")
        finally:
            self._constructing = False

    def _var(self, it, f, args, kwargs, node):
        tv = self._var_symbol(it, f, args, kwargs, node)
        eng = f.self_obj
        for d in f.fi.node.decorator_list:
            dn = ast.unparse(d.func if isinstance(d, ast.Call) else d).split(".")[-1]
            if dn in ("cache", "lru_cache", "cached_property"):
                it.event("memoised", node, f"`{f.fi.qualname}` is memoised (@{dn}): initialising an element again "
                                          "returns the old variables instead of new ones", data=f.fi.qualname)
        if getattr(self, "class_overlay", None) is None or not isinstance(eng, Obj):
            return tv
        self._created = 0
        # interpret the real body to learn what the engine does with the fresh array
        self._pending_var = (tv, eng)
        try:
            out = it.call_function(FuncV(f.fi, eng, via=eng, defcls=f.fi.cls), list(args), dict(kwargs), node,
                                   ) if False else self._run_var_body(it, f, args, kwargs, node)
        finally:
            self._pending_var = None
        if not isinstance(out, TV) or out.t != tv.t:
            raise it.err(node, "engine.var does not return the array/symbol it creates")
        if self._created != 1:
            it.event("var-not-fresh", node,
                     f"`{f.fi.qualname}` returned a variable without creating it ({self._created} creations): "
                     "variables are reused across calls")
        return TV(tv.t, out.rank, tv.fresh, tv.origin)

    def _run_var_body(self, it, f, args, kwargs, node):
        fi = f.fi
        it.depth += 1
        try:
            env = it.bind_args(f, args, kwargs, node)
            from .interp import Frame, Return
            fr = Frame(fi, env, defcls=fi.cls, self_obj=f.self_obj)
            it.stack.append(fr)
            try:
                it.exec_block(fi.node.body, fr)
            except Return as r:
                return r.v
            finally:
                it.stack.pop()
            return None
        finally:
            it.depth -= 1

    def fresh_array(self, it, name, node):
        """hook for the library calls that create the array/symbol inside engine.var"""
        pend = getattr(self, "_pending_var", None)
        if pend is None:
            raise it.err(node, f"{name} outside engine.var is not modelled")
        tv, eng = pend
        self._created = getattr(self, "_created", 0) + 1
        if name.startswith("casadi."):
            kind = name.split(".")[1]
            nominal = eng.attrs.get("__nominal__")
            if nominal is not None and kind != nominal:
                it.event("engine-state-shared", node,
                         f"an engine constructed for {nominal} symbols creates {kind} symbols: its configuration "
                         "is shared with another engine instance")
        return TV(tv.t, 1, tv.fresh, tv.origin)

    def _var_symbol(self, it, f, args, kwargs, node):
        name = args[0] if args else kwargs.get("name")
        n = args[1] if len(args) > 1 else kwargs.get("n", 1)
        if not isinstance(name, str) or "_" not in name:
            raise it.err(node, f"engine.var called with an unparsable name {name!r}")
        var, role = name.rsplit("_", 1)
        role = getattr(self, "name_alias", {}).get(role, role)
        if role not in self.roles:
            raise it.err(node, f"engine.var name {name!r} does not end with an element name")
        o = self.roles[role]
        self.prims.append(("engine.var", f.self_obj, _where(it, node), {"name": name}))
        if isinstance(n, AbsInt) and n.what == "N":
            if n.link != role:
                it.event("var-length", node, f"variable {name} sized with the N of {n.link}")
            return TV(E.V(var, role), 1, False, f"state {var} of {role}")
        if isinstance(n, AbsInt) and n.what.startswith("len("):
            return TV(("w", var, role, "vsl"), 1, False, f"variable {var} of {role}")
        if o.kind == "link" and var == "v_ctrl" and isinstance(n, int) and not isinstance(n, bool):
            if self.env.nseg(role + ".vsl") != n:
                it.event("var-length", node, f"{name} created with length {n}, the link has "
                                             f"{self.env.nseg(role + '.vsl')} limited segments")
            if n == 0:
                return TV(E.vcat(), 1, False, f"variable {var} of {role} (no entries)")
            return TV(E.V(var, role + ".vsl"), 1, False, f"variable {var} of {role}")
        if isinstance(n, int) and not isinstance(n, bool) and o.kind == "link" and o.attrs.get("N") == n \
                and var in ("rho", "v"):
            return TV(E.V(var, role), 1, False, f"state {var} of {role}")
        if n == 1:
            return TV(E.S(f"{role}.{var}"), 1, False, f"variable {var} of {role}")
        raise it.err(node, f"engine.var with unexpected length {n!r}")


class _Bound:
    def __init__(self, fn):
        self.fn = fn


def _where(it: Interp, node) -> str:
    fr = it.stack[-1] if it.stack else None
    if fr is None or fr.fi is None:
        return ""
    return f"{it.prog.modules[fr.fi.module].relpath}:{getattr(node, 'lineno', 0)} {fr.fi.qualname}"


# ------------------------------------------------------------------- driver
def run_config(prog: Program, cfg: Config, decisions=(), entry="network") -> Result:
    w = World(prog, cfg, decisions)
    it = Interp(prog, w, lib_semantics=cfg.impl)
    raised = None
    error = None
    n_prims_before = 0
    try:
        step = prog.function("sym_metanet.network", "Network.step")
        for hent in cfg.history:
            hflags, hengine = hent[0], hent[1]
            kwargs = {f: (f in hflags) for f in FLAGS}
            kwargs.update(w.other)
            kwargs["init_conditions"] = w.init_conditions
            if len(hent) > 2 and hent[2] == "rank1":
                # the same values given as 1-element arrays instead of numpy scalars
                kwargs["init_conditions"] = {
                    el: {k: (TV(v.t, 1, v.fresh, v.origin) if isinstance(v, TV) and v.rank == 0 else v)
                         for k, v in d.items()} for el, d in w.init_conditions.items()}
            kwargs["engine"] = w.EXPL if hengine == "explicit" else None
            it.call_function(FuncV(step, w.net, defcls=NET), [], kwargs)
            w.memo_start, w.final_start = len(w.assumptions), len(w.trace)
        n_prims_before = len(w.prims)
        n_events_before = len(it.events)
        kwargs = {f: (f in cfg.flags) for f in FLAGS}
        kwargs.update(w.other)
        kwargs["init_conditions"] = w.init_conditions
        kwargs["engine"] = w.EXPL if cfg.engine_arg == "explicit" else None
        it.call_function(FuncV(step, w.net, defcls=NET), [], kwargs)
    except Raised as r:
        raised = r
    if cfg.history:
        # dispatch / default-engine events of the earlier steps are not the final step's
        keep = ("current-engine",)
        it.events = [e for i, e in enumerate(it.events) if not (i < locals().get("n_events_before", 0) and e.kind in keep)]
        w.prims = w.prims[n_prims_before:]
    outputs, states = {}, {}
    for role, o in w.roles.items():
        ns = o.attrs.get("next_states")
        if isinstance(ns, dict):
            outputs[role] = {k: (v.t if isinstance(v, TV) else v) for k, v in ns.items()}
        st = {}
        for g in ("states", "actions", "disturbances"):
            d = o.attrs.get(g)
            if isinstance(d, dict):
                st[g] = {k: v for k, v in d.items()}
            else:
                st[g] = d
        states[role] = st
    return Result(cfg, tuple(w.trace), w.assumptions, outputs, it.events, raised, w.prims, states, w, error,
                  tuple(w.trace[w.final_start:]), list(w.assumptions[w.memo_start:]))


def run_all_paths(prog: Program, cfg: Config, max_paths: int = 16):
    """Explore every combination of symbolic decisions (re-execution forking)."""
    results = []
    todo = [()]
    seen = set()
    while todo:
        dec = todo.pop()
        r = run_config(prog, cfg, dec)
        if r.path in seen:
            continue
        seen.add(r.path)
        results.append(r)
        # fork: for each decision beyond the forced prefix that took the default (the decisions of
        # the earlier steps of a history keep their default: one way through them is enough)
        first_forkable = len(r.path) - len(r.final_path)
        for i in range(max(len(dec), first_forkable), len(r.path)):
            alt = r.path[:i] + (not r.path[i],)
            todo.append(alt)
        if len(results) > max_paths:
            raise AnalysisError(f"more than {max_paths} symbolic paths in {cfg.label()}")
    return results
