"""CLI:  python -m sma.run C08 --tier quick|thorough [--replay file]

Exit codes: 0 = every obligation holds (or is a listed known finding);
1 = VIOLATION (a REFUTED obligation not listed); 2 = ANALYSIS-ERROR.
"""
from __future__ import annotations

import argparse
import importlib
import json
import os
import sys

sys.path.insert(0, os.path.dirname(os.path.dirname(os.path.abspath(__file__))))

from sma.core import run_check  # noqa: E402


def main(argv=None) -> int:
    ap = argparse.ArgumentParser()
    ap.add_argument("pid")
    ap.add_argument("--tier", default=os.environ.get("VERIF_TIER", "quick"))
    ap.add_argument("--replay", default=None)
    a = ap.parse_args(argv)
    pid = a.pid.upper()
    try:
        mod = importlib.import_module(f"sma.checks.{pid.lower()}")
    except ModuleNotFoundError:
        print(f"ANALYSIS-ERROR property={pid} no check module")
        return 2
    meta = mod.META
    replay_key = None
    if a.replay:
        with open(a.replay) as fh:
            replay_key = json.load(fh)["key"]
    tier = "thorough" if a.tier == "thorough" else "quick"
    return run_check(
        pid,
        tier,
        lambda rep: mod.run(rep),
        meta["level"],
        meta["rule"],
        meta["explanation"],
        f"/venv/bin/python sma/run.py {pid} --tier {tier}",
        replay_only=replay_key,
    )


if __name__ == "__main__":
    try:
        rc = main()
        sys.stdout.flush()
    except BrokenPipeError:
        rc = 2
    os._exit(rc)
