"""Shared driver for the WIRE-based checks: interpret `Network.step` for every
configuration (16 worker processes) and compare with the model."""
from __future__ import annotations

import multiprocessing as mp
import os
from dataclasses import dataclass, field
from typing import Optional

from . import expr as E
from . import model as M
from .front import AnalysisError, Program
from .interp import Obj, Raised, TV
from .spec.wtable import Model
from .wire import FLAGS, Config, Result, enumerate_configs, run_all_paths


@dataclass
class Path:
    """picklable summary of one symbolic path of one configuration"""

    path: tuple
    assumptions: list  # (term, choice, text)
    outputs: dict  # role -> {var: term}
    events: list  # (kind, where, detail, data)
    raised: Optional[tuple]  # (exc, where, msg)
    prims: list  # (name, via ident, where, {param: term|repr})
    states: dict  # role -> {group: {var: (term, rank, fresh)} | None}
    n1: dict


@dataclass
class Checked:
    cfg: Config
    paths: list
    mismatches: list = field(default_factory=list)  # (path, role, var, pos, code, spec)
    error: Optional[str] = None
    unusable: list = field(default_factory=list)
    undefined: list = field(default_factory=list)  # (path, role, var, pos, kind, arg, sign)
    support_extras: list = field(default_factory=list)  # (path, role, var, pos, [keys outside the D-table])
    n_supports: int = 0

    def env(self, p: Path) -> E.Env:
        return E.Env(p.n1)


def _light(v):
    if isinstance(v, TV):
        return v.t
    if isinstance(v, Obj):
        return f"<{v.ident}>"
    if v is None or isinstance(v, (bool, int, float, str)):
        return v
    if isinstance(v, (tuple, list)):
        return tuple(_light(x) for x in v)
    if isinstance(v, dict):
        return {str(k): _light(x) for k, x in v.items()}
    return f"<{type(v).__name__}>"


def summarize(r: Result) -> Path:
    raised = None
    if r.raised is not None:
        fi = r.raised.fi
        where = ""
        if fi is not None:
            where = f"{r.world.prog.modules[fi.module].relpath}:{getattr(r.raised.node, 'lineno', 0)} {fi.qualname}"
        raised = (r.raised.exc, where, r.raised.msg)
    events = [(e.kind, e.where, e.detail, _light(e.data) if e.data is not None else None) for e in r.events]
    prims = []
    for name, via, where, env in r.prims:
        prims.append((name, via.ident if isinstance(via, Obj) else None, where,
                      {k: _light(v) for k, v in env.items() if not k.startswith("__")} if isinstance(env, dict) else None))
    states = {}
    for role, groups in r.states.items():
        g2 = {}
        for g, d in groups.items():
            if isinstance(d, dict):
                g2[g] = {k: ((v.t, v.rank, v.fresh) if isinstance(v, TV) else _light(v)) for k, v in d.items()}
            else:
                g2[g] = None
        states[role] = g2
    return Path(r.final_path, list(r.final_assumptions), r.outputs, events, raised, prims, states, dict(r.world.env.n1))


def check_config(prog: Program, cfg: Config, compare=True) -> Checked:
    try:
        results = run_all_paths(prog, cfg)
    except AnalysisError as e:
        return Checked(cfg, [], error=str(e))
    ck = Checked(cfg, [summarize(r) for r in results])
    if compare:
        try:
            _compare(ck)
            _definedness(ck)
            _supports(ck)
        except AnalysisError as e:
            ck.error = f"comparison: {e}"
    return ck


def _supports(ck: Checked) -> None:
    from .spec.dtable import allowed_set, is_param

    cfg = ck.cfg
    for p in ck.paths:
        if p.raised is not None:
            continue
        nz = M.make_normalizer(cfg)
        env = E.Env(p.n1)
        mapping, _ = M.assumption_substitution(p.assumptions, nz)
        for role, outs in p.outputs.items():
            if role not in ("SELF", "ORG"):
                continue
            for var, t in outs.items():
                if not E.is_term(t):
                    continue
                t = M.subst(t, mapping)
                try:
                    poss = E.positions(E.shape(t, env), env)
                except E.ShapeError:
                    continue
                for pos in poss:
                    ck.n_supports += 1
                    try:
                        sup = M.support(t, pos, env, nz)
                    except E.ShapeError:
                        continue
                    A = allowed_set(cfg, role, var, pos)
                    extra = [k for k in sup if not is_param(k) and k not in A]
                    if extra:
                        ck.support_extras.append((p.path, role, var, pos, extra))


def _definedness(ck: Checked) -> None:
    for p in ck.paths:
        if p.raised is not None:
            continue
        nz = M.make_normalizer(ck.cfg)
        env = E.Env(p.n1)
        mapping, _ = M.assumption_substitution(p.assumptions, nz)
        for role, outs in p.outputs.items():
            for var, t in outs.items():
                if not E.is_term(t):
                    continue
                t = M.subst(t, mapping)
                try:
                    for pos in E.positions(E.shape(t, env), env):
                        for pr in M.definedness(t, pos, env, nz, M.model_zero_over_zero):
                            ck.undefined.append((p.path, role, var, E._fpos(pos)) + tuple(pr))
                except E.ShapeError:
                    pass


def _compare(ck: Checked) -> None:
    cfg = ck.cfg
    spec = Model(cfg).expected()
    for r in ck.paths:
        if r.raised is not None:
            continue
        # equality is decided without sign assumptions on the states: the clamps
        # max(0, x) must not fold away
        nz = M.make_normalizer(cfg, with_domain=False)
        env = E.Env(r.n1)
        mapping, unusable = M.assumption_substitution(r.assumptions, nz)
        M.apply_assumptions(nz, r.assumptions, env, mapping)
        ck.unusable += unusable
        for role, vars_ in spec.items():
            got = r.outputs.get(role)
            for var, sterm in vars_.items():
                if got is None or var not in got:
                    ck.mismatches.append((r.path, role, var, "-", "<no next state produced>", E.fmt(sterm, 200)))
                    continue
                cterm = got[var]
                if not E.is_term(cterm):
                    ck.mismatches.append((r.path, role, var, "-", f"<non-symbolic {cterm!r}>", E.fmt(sterm, 200)))
                    continue
                try:
                    mm = M.compare(cterm, sterm, env, nz, mapping)
                except E.ShapeError as e:
                    mm = [("shape", str(e), "")]
                for pos, a, b in mm:
                    ck.mismatches.append((r.path, role, var, pos, a, b))
        for role, vars_ in r.outputs.items():
            for var in vars_:
                if role not in spec or var not in spec[role]:
                    ck.mismatches.append((r.path, role, var, "-", "<next state not in the model>", ""))


# ------------------------------------------------------------ parallel driver
_PROG: Optional[Program] = None


def _work(cfg: Config) -> Checked:
    return check_config(_PROG, cfg)


def check_configs(prog: Program, cfgs: list, jobs: Optional[int] = None) -> list:
    global _PROG
    _PROG = prog
    jobs = jobs or min(16, os.cpu_count() or 1)
    if jobs <= 1 or len(cfgs) < 8:
        return [check_config(prog, c) for c in cfgs]
    ctx = mp.get_context("fork")
    with ctx.Pool(jobs) as pool:
        return pool.map(_work, cfgs, chunksize=max(1, len(cfgs) // (jobs * 4)))


def configs_for(tier: str, impls=("casadi", "numpy")) -> list:
    return enumerate_configs(tier, impls)


def flag_configs(tier: str, impls=("casadi",)) -> list:
    """Reduced base x positivity flags (quick: each flag alone + all; thorough: all 64)."""
    import itertools
    from dataclasses import replace

    base = [
        Config(u_in=1, u_origin="MeteredOnRamp", u_otype="out", d_out=1, delta=True, phi=True),
        Config(link_cls="LinkWithVsl", u_in="many", u_out="many", d_out="many", delta=True, phi=True),
        Config(u_in=0, u_origin="MainstreamOrigin", d_dest="CongestedDestination", d_out=0, n1=True),
        Config(u_in="many", u_origin="SimplifiedMeteredOnRamp", u_otype="limited", d_dest="Destination", d_out=0, delta=True),
    ]
    if tier == "thorough":
        combos = [frozenset(c) for k in range(len(FLAGS) + 1) for c in itertools.combinations(FLAGS, k)]
    else:
        combos = [frozenset()] + [frozenset([f]) for f in FLAGS] + [frozenset(FLAGS)]
    out = []
    allf = frozenset(FLAGS)
    for impl in impls:
        for b in base:
            for c in combos:
                out.append(replace(b, flags=c, impl=impl))
            # the same objects stepped before with other options / another engine argument
            out.append(replace(b, flags=frozenset(), impl=impl, history=((allf, "explicit"),)))
            out.append(replace(b, flags=allf, impl=impl, history=((frozenset(), "current"),)))
            out.append(replace(b, flags=frozenset(["positive_init_speed", "positive_next_queue"]), impl=impl,
                               history=((frozenset(["positive_init_queue", "positive_init_density"]), "current"),
                                        (allf, "explicit"))))
            # the options applied to variables the caller supplied
            out.append(replace(b, flags=frozenset(), impl=impl, init="user"))
            out.append(replace(b, flags=allf, impl=impl, init="user"))
            out.append(replace(b, flags=frozenset(["positive_init_speed"]), impl=impl, init="user"))
            if impl == "numpy" and b.u_origin is not None:
                # stepped before from 1-element arrays, now from numpy scalars (0-d) of the same values
                out.append(replace(b, flags=frozenset(), impl=impl, init="user0",
                                   history=((frozenset(), "explicit", "rank1"),)))
                out.append(replace(b, flags=frozenset(), impl=impl, init="user0"))
    return out
