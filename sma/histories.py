"""Bounded exploration of construction histories with *caching semantics*.

The concrete-graph world is extended so that `functools.cached_property` lookups of
`Network` are memoised in the instance `__dict__` (as CPython does) and every method
decorated with `invalidate_cache(...)` is called through the wrapper obtained by
interpreting the real decorator.  A history is a sequence of construction calls; before
each call every lookup is read (so every cache is populated - the worst case for
staleness) and after each call every lookup is compared with its recomputation from
the graph.
"""
from __future__ import annotations

import ast
import itertools
from dataclasses import dataclass
from typing import Any

from .front import AnalysisError, Program, dotted_name
from .gworld import GWorld, LinkViewV, NodeViewV
from .interp import Builtin, Closure, Coll, FuncV, Interp, IterV, Obj, Raised
from .wire import NET


@dataclass(eq=False)
class RawMethod:
    fi: Any


class HistWorld(GWorld):
    def __init__(self, prog: Program):
        super().__init__(prog, "casadi")
        self.net.attrs["__dict__"] = {}
        self.netci = prog.find_class("sym_metanet.network", "Network")
        self._wrappers: dict = {}
        self.cache_on = True
        self._building = False

    # ---- cached_property semantics
    def getattr(self, it, o, attr, node):
        if o is self.net and self.cache_on:
            m = self.prog.lookup_method(NET, attr)
            if m is not None and m.is_cached_property():
                d = self.net.attrs["__dict__"]
                if attr in d:
                    return d[attr]
                v = it.call_function(FuncV(m, o, defcls=m.cls), [], {}, node)
                d[attr] = v
                return v
        if o is self.net and attr == "__dict__":
            return self.net.attrs["__dict__"]
        return GWorld.getattr(self, it, o, attr, node)

    def cached_property_get(self, it, o, name, compute):
        """a cached property built by a factory (`name = factory(...)` in the class body)"""
        if o is self.net and self.cache_on:
            d = self.net.attrs["__dict__"]
            if name not in d:
                d[name] = compute()
            return d[name]
        return compute()

    def isinstance_ext(self, it, o, k, node):
        if k.name.endswith("cached_property"):
            return isinstance(o, Obj) and o.kind == "cachedprop"
        return GWorld.isinstance_ext(self, it, o, k, node)

    def call_ext(self, it, name, args, kwargs, node):
        if name.endswith("functools.wraps") or name == "functools.wraps":
            return Builtin("<wraps>")
        return GWorld.call_ext(self, it, name, args, kwargs, node)

    def call_value(self, it, f, args, kwargs, node):
        if isinstance(f, RawMethod):
            return it.call_function(FuncV(f.fi, None, defcls=f.fi.cls), list(args), dict(kwargs), node)
        return GWorld.call_value(self, it, f, args, kwargs, node)

    def on_container_mutation(self, it, c, node, how):
        return None

    # ---- methods decorated with invalidate_cache go through the real wrapper
    def _decorator_args(self, fi):
        nm = getattr(self, "_netmodel", None)
        if nm is None:
            from .effects import NetModel

            nm = self._netmodel = NetModel(self.prog)
        return nm.decorator_names(fi)[1]

    def intercept_call(self, it, f, args, kwargs, node):
        fi = f.fi
        if fi.cls == NET and not self._building and isinstance(f.self_obj, Obj):
            names = self._decorator_args(fi)
            if names is not None:
                w = self._wrappers.get(fi.qualname)
                if w is None:
                    self._building = True
                    try:
                        deco_fi = self.prog.function("sym_metanet.util.funcs", "invalidate_cache")
                        # (the decorator runs in the class body, before `__set_name__`)
                        props = [Obj("functools:cached_property", nm, {"attrname": None}, kind="cachedprop")
                                 for nm in names]
                        deco = it.call_function(FuncV(deco_fi), props, {})
                        w = it.call(deco, [RawMethod(fi)], {}, node, None)
                        for pr in props:
                            pr.attrs["attrname"] = pr.ident
                    finally:
                        self._building = False
                    self._wrappers[fi.qualname] = w
                return it.call(w, [f.self_obj] + list(args), dict(kwargs), node, None)
        return GWorld.intercept_call(self, it, f, args, kwargs, node)


LOOKUPS = ["nodes_by_name", "links_by_name", "nodes_by_link", "origins", "origins_by_name",
           "origins_by_node", "destinations", "destinations_by_name", "destinations_by_node"]


def read_all(w: HistWorld, it: Interp, cached: bool):
    """every lookup the network offers, as plain python data"""
    w.cache_on = cached
    try:
        out = {}
        for nm in LOOKUPS:
            try:
                out[nm] = dict(it.getattr(w.net, nm, None, None))
            except Raised as e:
                out[nm] = f"raises {e.exc}"
        try:
            out["nodes"] = list(it.iterate(it.getattr(w.net, "nodes", None, None), None, None))
            links = it.getattr(w.net, "links", None, None)
            out["links"] = list(it.iterate(links, None, None))
            inl = it.getattr(w.net, "in_links", None, None)
            outl = it.getattr(w.net, "out_links", None, None)
            for n in list(w.graph.node):
                ci = it.call(inl, [n], {}, None, None)
                co = it.call(outl, [n], {}, None, None)
                out[f"in_links({getattr(n, 'ident', n)})"] = list(ci.members) if isinstance(ci, Coll) else ci
                out[f"out_links({getattr(n, 'ident', n)})"] = list(co.members) if isinstance(co, Coll) else co
        except Raised as e:
            out["views"] = f"raises {e.exc}"
        return out
    finally:
        w.cache_on = True


def views_vs_graph(w: HistWorld, it: Interp):
    """the link views (whole, per node, subscripted, len, membership) against the graph
    itself; returns the first discrepancy as text, or None"""
    g = w.graph
    key = w.consts["LINKENTRY"]
    edges = [(u, v, d.get(key)) for u, v, d in g.out_edges()]
    net = w.net

    def view(name):
        return it.getattr(net, name, None, None)

    def nm(x):
        return getattr(x, "ident", x)

    def fmt(xs):
        return [tuple(nm(y) for y in x) if isinstance(x, tuple) else nm(x) for x in xs]

    try:
        for name in ("links", "out_links"):
            got = list(it.iterate(view(name), None, None))
            if got != edges:
                return f"iterating `{name}` gives {fmt(got)} but the edges are {fmt(edges)}"
        got = list(it.iterate(view("in_links"), None, None))
        norm = sorted((tuple(sorted((id(a), id(b)))), id(l)) for a, b, l in got) if all(
            isinstance(x, tuple) and len(x) == 3 for x in got) else None
        want = sorted((tuple(sorted((id(a), id(b)))), id(l)) for a, b, l in edges)
        if norm != want:
            return f"iterating `in_links` gives {fmt(got)}, not every edge with its link once ({fmt(edges)})"
        for name in ("links", "out_links", "in_links"):
            v = view(name)
            n = it.call_builtin("len", [v], {}, None, None)
            if n != len(edges):
                return f"len({name}) = {n!r} but the graph has {len(edges)} edges"
            for u, x, l in edges:
                got = it.world.getitem(it, v, (u, x), None)
                if got is not l:
                    return f"{name}[{nm(u)}, {nm(x)}] gives {nm(got)} but the edge carries {nm(l)}"
                if not it.contains(v, (u, x), None, None):
                    return f"({nm(u)}, {nm(x)}) in {name} is false for an edge of the graph"
            for u in g.node:
                for x in g.node:
                    if x not in g.succ[u]:
                        if it.contains(v, (u, x), None, None):
                            return f"({nm(u)}, {nm(x)}) in {name} is true but there is no such edge"
                        try:
                            got = it.world.getitem(it, v, (u, x), None)
                        except Raised:
                            continue
                        return f"{name}[{nm(u)}, {nm(x)}] gives {nm(got)} but there is no such edge"
        for n in g.node:
            for name, want in (("in_links", [(u, x, d.get(key)) for u, x, d in g.in_edges(n)]),
                               ("out_links", [(u, x, d.get(key)) for u, x, d in g.out_edges(n)]),
                               ("links", [(u, x, d.get(key)) for u, x, d in g.out_edges(n)])):
                c = it.call(view(name), [n], {}, None, None)
                got = list(it.iterate(c, None, None))
                if got != want:
                    return f"{name}({nm(n)}) gives {fmt(got)} but the graph says {fmt(want)}"
                if it.call_builtin("len", [c], {}, None, None) != len(want):
                    return f"len({name}({nm(n)})) differs from the number of such edges ({len(want)})"
    except Raised as e:
        return f"a link view raises {e.exc}: {e.msg}"
    return None


def operations(w: HistWorld):
    """(label, method, args, kwargs) over a small universe"""
    n1, n2, n3 = (w.node(k) for k in ("n1", "n2", "n3"))
    l1, l2 = w.link("l1"), w.link("l2")
    o1, o2 = w.origin("o1", "MeteredOnRamp"), w.origin("o2", "MainstreamOrigin")
    d1, d2 = w.dest("d1"), w.dest("d2", "CongestedDestination")
    d3 = w.dest("d3")
    d3.attrs["name"] = "d1"  # another destination with the same name
    return [
        ("add_node(n1)", "add_node", [n1], {}),
        ("add_nodes([n2, n3])", "add_nodes", [[n2, n3]], {}),
        ("add_link(n1, l1, n2)", "add_link", [n1, l1, n2], {}),
        ("add_link(n1, l2, n2)", "add_link", [n1, l2, n2], {}),
        ("add_link(n2, l2, n3)", "add_link", [n2, l2, n3], {}),
        ("add_links([(n2, l1, n3)])", "add_links", [[(n2, l1, n3)]], {}),
        ("add_origin(o1, n1)", "add_origin", [o1, n1], {}),
        ("add_origin(o2, n1)", "add_origin", [o2, n1], {}),
        ("add_origin(o1, n3)", "add_origin", [o1, n3], {}),
        ("add_destination(d1, n2)", "add_destination", [d1, n2], {}),
        ("add_destination(d2, n2)", "add_destination", [d2, n2], {}),
        ("add_path((n1, l1, n2), o1, d1)", "add_path", [(n1, l1, n2)], {"origin": o1, "destination": d1}),
        ("add_path((n2, l2, n3), destination=d2)", "add_path", [(n2, l2, n3)], {"destination": d2}),
        ("add_destination(d3 named like d1, n1)", "add_destination", [d3, n1], {}),
        ("add_links([(n1, l1, n3), <malformed item>]) [raises]", "add_links", [[(n1, l1, n3), (n3, l2)]], {}),
        ("add_nodes([n3, <unhashable>]) [raises]", "add_nodes", [[n3, ["junk"]]], {}),
    ]


def n_operations(prog: Program) -> int:
    return len(operations(HistWorld(prog)))


def explore_one(prog: Program, seq):
    """one history: (labels, first discrepancy or None)"""
    w = HistWorld(prog)
    ops = operations(w)
    it = w.interp()
    labels = []
    bad = None
    for k in seq:
        label, meth, args, kwargs = ops[k]
        labels.append(label)
        read_all(w, it, cached=True)  # populate every cache
        fi = prog.function("sym_metanet.network", f"Network.{meth}")
        try:
            it.call(FuncV(fi, w.net, defcls=NET), list(args), dict(kwargs), None, None)
        except Raised as e:
            if "[raises]" not in label:
                bad = ("raises", f"{label} raises {e.exc}: {e.msg}")
                break
        got = read_all(w, it, cached=True)
        want = read_all(w, it, cached=False)
        for key in want:
            if got.get(key) != want[key]:
                bad = (key, f"after {' ; '.join(labels)}: lookup `{key}` gives {_short(got.get(key))} but the graph "
                            f"says {_short(want[key])}")
                break
        if not bad:
            d = views_vs_graph(w, it)
            if d:
                bad = ("link views", f"after {' ; '.join(labels)}: {d}")
        if bad:
            break
    return labels, bad


def explore(prog: Program, length: int):
    """yield (history labels, first stale lookup or None) for every history of `length` calls"""
    for seq in itertools.product(range(n_operations(prog)), repeat=length):
        yield explore_one(prog, seq)


def _short(x):
    s = repr(x)
    return s if len(s) < 160 else s[:157] + "..."
