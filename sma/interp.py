"""Abstract interpreter of the Python subset used by ``blocks/*.py``,
``Network.step`` and the engine primitives.

Values are Python constants / containers, symbolic terms (`TV`), abstract objects
(`Obj`), abstract link collections (`Coll`) and references to repository
classes / functions.  Anything outside the supported subset raises
`AnalysisError` naming the AST node (fail-closed).
"""
from __future__ import annotations

import ast
from dataclasses import dataclass, field
from fractions import Fraction
from typing import Any, Optional

from . import expr as E
from .front import AnalysisError, FunctionInfo, Program, dotted_name, short


# ------------------------------------------------------------------- values
class TV:
    """Symbolic value. rank: 0 (scalar / 0-d), 1 (1-d array), None (python number).
    fresh: created by this computation (safe to mutate in place)."""

    __slots__ = ("t", "rank", "fresh", "origin")

    def __init__(self, t, rank=0, fresh=True, origin=""):
        self.t = t
        self.rank = rank
        self.fresh = fresh
        self.origin = origin

    def __repr__(self):
        return f"TV({E.fmt(self.t, 80)}, r{self.rank}, {'fresh' if self.fresh else 'shared'})"


@dataclass(eq=False)
class Obj:
    cls: str  # fq class name in the repo
    ident: str
    attrs: dict = field(default_factory=dict)
    kind: str = "obj"

    def __repr__(self):
        return f"<{self.ident}:{self.cls.split(':')[-1]}>"


@dataclass(eq=False)
class ClassV:
    fq: str
    via: Optional[Obj] = None  # the engine object it was reached through


@dataclass(eq=False)
class FuncV:
    fi: FunctionInfo
    self_obj: Any = None
    via: Optional[Obj] = None
    defcls: Optional[str] = None  # class that defines it (for super())
    acc_cls: Optional[str] = None  # class through which it was looked up (C.method)
    raw: bool = False  # the undecorated function (used while applying repository decorators)


@dataclass(eq=False)
class Builtin:
    name: str


@dataclass(eq=False)
class ExtMod:
    name: str  # 'numpy' / 'casadi' / ...


@dataclass(eq=False)
class Coll:
    """Abstract collection of (up, down, link) triples."""

    kind: str  # 'In' / 'Out' / 'All'
    node: Any
    card: Any  # 0, 1 or 'many'
    members: list  # concrete triples when card in (0, 1); [generic triple] when 'many'
    domain: str = ""


@dataclass(eq=False)
class AbsInt:
    """cardinality 'many' (>= 2) or an abstract segment count"""

    what: str
    ge2: bool = True
    link: Any = None


@dataclass(eq=False)
class FamItem:
    domain: str
    term: Any  # TV


class FamList(list):
    """python list whose items may be FamItem (appended inside an abstract loop)"""


@dataclass(eq=False)
class DTypeV:
    """the dtype of a numpy value (floating for what the engine creates, whatever the caller
    chose for caller-supplied arrays)"""
    of: Any


@dataclass(eq=False)
class _AsType:
    x: Any


@dataclass(eq=False)
class PropV:
    """a property / functools.cached_property object built by calling the constructor"""
    fget: Any
    cached: bool = False
    name: Optional[str] = None


@dataclass(eq=False)
class _MethodCaller:
    name: str
    args: list
    kwargs: dict


@dataclass(eq=False)
class LazyV:
    """map(f, it) / filter(p, it): `f` / `p` run only when an item is asked for"""
    kind: str
    fn: Any
    src: Any  # IterV | GenV | LazyV
    node: Any = None

    def pull(self, it, n, fr):
        """(True, item) or (False, None)"""
        while True:
            ok, x = _pull(self.src, it, n, fr)
            if not ok:
                return False, None
            if self.kind == "map":
                return True, it.call(self.fn, [x], {}, n, fr)
            keep = it.truth(x, n, fr) if self.fn is None else it.truth(it.call(self.fn, [x], {}, n, fr), n, fr)
            if keep:
                return True, x


def _pull(src, it, n, fr):
    if isinstance(src, LazyV):
        return src.pull(it, n, fr)
    if isinstance(src, IterV):
        if src.pos < len(src.items):
            src.pos += 1
            return True, src.items[src.pos - 1]
        return False, None
    if isinstance(src, GenV):
        if src.items:
            return True, src.items.pop(0)
        return False, None
    raise AnalysisError("lazy iteration over an unsupported source")


class _Identity:
    """a decorator that returns its argument (functools.wraps(f))"""


@dataclass(eq=False)
class SuppressV:
    """contextlib.suppress(*exceptions)"""
    names: tuple


class KeysV(list):
    """the keys of a dict at the time of the call (set-like in comparisons)"""


@dataclass(eq=False)
class GenV:
    items: list  # list of values or FamItem


@dataclass(eq=False)
class SuperV:
    obj: Any
    after: str


@dataclass(eq=False)
class ShapeV:
    sh: Any
    nd: int = 1  # number of dimensions: numpy 0-d scalar 0, numpy array 1, casadi matrix 2


@dataclass(eq=False)
class IterV:
    items: list
    pos: int = 0


class _ClassScope(dict):
    """names visible in a class body: its other attributes and its methods"""

    def __init__(self, it, ci):
        super().__init__()
        self.it, self.ci = it, ci

    def __contains__(self, k):
        return dict.__contains__(self, k) or k in self.ci.attrs or k in self.ci.methods

    def __getitem__(self, k):
        if dict.__contains__(self, k):
            return dict.__getitem__(self, k)
        if k in self.ci.attrs:
            return self.it.eval_class_attr(self.ci.attrs[k], self.ci.fq)
        if k in self.ci.methods:
            m = self.ci.methods[k]
            return FuncV(m, None, defcls=m.cls)
        raise KeyError(k)

    def get(self, k, d=None):
        return self[k] if k in self else d


class Return(Exception):
    def __init__(self, v):
        self.v = v


class _Break(Exception):
    pass


class _Continue(Exception):
    pass


@dataclass(eq=False)
class _Getter:
    key: Any
    item: bool
    multi: bool = False


@dataclass(eq=False)
class Partial:
    func: Any
    args: tuple
    kwargs: dict


@dataclass(eq=False)
class _Const:
    v: Any


@dataclass(eq=False)
class Closure:
    fi: Any
    frame: Any


class Raised(Exception):
    """the interpreted program raises"""

    def __init__(self, exc: str, node, fi, msg=""):
        self.exc = exc
        self.node = node
        self.fi = fi
        self.msg = msg
        super().__init__(f"{exc} at {fi.qualname if fi else '?'}:{getattr(node, 'lineno', 0)} {msg}")


@dataclass
class Event:
    kind: str
    where: str
    detail: str
    node: Any = None
    data: Any = None


class Frame:
    def __init__(self, fi: Optional[FunctionInfo], env: dict, defcls=None, self_obj=None):
        self.fi = fi
        self.env = env
        self.defcls = defcls
        self.self_obj = self_obj


# -------------------------------------------------------------- alias table
NUMPY_ALIAS = {
    "squeeze": "squeeze",
    "ravel": "ident",
    "zeros_like": "zeros_like",
    "ones_like": "ones_like",
    "full_like": "full_like",
    "asarray": "ident",
    "array": "copy",
    "atleast_1d": "atleast_1d",
    "copy": "copy",
    "where": "ite",
    "clip": "clip",
    "sqrt": "sqrt",
    "divide": "div",
    "multiply": "mul",
    "add": "add",
    "subtract": "sub",
    "negative": "neg",
    "concatenate": "hstack",
    "float64": "ident",
    "sum": "sum0",
    "square": "square",
    "power": "pow",
    "exp": "exp",
    "log": "log",
    "minimum": "min",
    "maximum": "max",
    "hstack": "hstack",
}
CASADI_ALIAS = {
    "sqrt": "sqrt",
    "times": "mul",
    "plus": "add",
    "minus": "sub",
    "rdivide": "div",
    "SX": "ident",
    "MX": "ident",
    "DM": "ident",
    "sum1": "sum",
    "power": "pow",
    "exp": "exp",
    "log": "log",
    "fmin": "min",
    "fmax": "max",
    "if_else": "ite",
    "vcat": "vcat_list",
    "vertcat": "vcat_args",
    "veccat": "vcat_args",
}


class Interp:
    def __init__(self, prog: Program, world=None, lib_semantics: str = "numpy"):
        self.prog = prog
        self.world = world
        self.events: list[Event] = []
        self.depth = 0
        self.stack: list[Frame] = []
        self.lib = lib_semantics  # which library the in-place/rank semantics follow
        self.steps = 0
        self.class_overlay = getattr(world, "class_overlay", {}) if world is not None else {}

    # ----------------------------------------------------------- events
    def event(self, kind, node, detail, data=None):
        fr = self.stack[-1] if self.stack else None
        fi = fr.fi if fr else None
        where = ""
        if fi is not None:
            mi = self.prog.modules[fi.module]
            where = f"{mi.relpath}:{getattr(node, 'lineno', 0)} {fi.qualname}"
        self.events.append(Event(kind, where, detail, node, data))

    def err(self, node, msg):
        fr = self.stack[-1] if self.stack else None
        fi = fr.fi if fr else None
        loc = ""
        if fi is not None:
            loc = f"{self.prog.modules[fi.module].relpath}:{getattr(node, 'lineno', 0)} {fi.qualname}: "
        return AnalysisError(f"{loc}{msg}: `{short(node, 80) if isinstance(node, ast.AST) else node}`")

    # ------------------------------------------------------------ calling
    def call_function(self, fv: FuncV, args: list, kwargs: dict, node=None):
        fi = fv.fi
        if isinstance(fi.node, ast.FunctionDef):
            for d in fi.node.decorator_list:
                dn = (dotted_name(d.func if isinstance(d, ast.Call) else d) or "").split(".")[-1]
                if dn in ("cache", "lru_cache", "cached_property") and not (
                    fi.cls or "").endswith(":Network"):
                    self.event("memoised", fi.node,
                               f"`{fi.qualname}` is memoised (@{dn}): its result is reused across steps "
                               "and network changes", data=fi.qualname)
                    if dn in ("cache", "lru_cache") and not getattr(self, "_in_memo", False):
                        # functools semantics: the first result (the same object) is handed to
                        # every later caller with equal arguments
                        def hk(x):
                            try:
                                hash(x)
                                return ("v", x) if isinstance(x, (int, float, str, bool, type(None), tuple, frozenset)) else ("o", id(x))
                            except TypeError:
                                raise Raised("TypeError", node or fi.node, fi, "unhashable argument of a cached function")
                        key = (fi.fq, id(fv.self_obj), tuple(hk(a) for a in args),
                               tuple(sorted((k, hk(v)) for k, v in kwargs.items())))
                        memo = self.__dict__.setdefault("_memo", {})
                        if key in memo:
                            return memo[key]
                        self._in_memo = True
                        try:
                            r = self.call_function(fv, args, kwargs, node)
                        finally:
                            self._in_memo = False
                        memo[key] = r
                        return r
                elif dn not in self.KNOWN_DECORATORS and not getattr(fv, "raw", False):
                    # a decorator of the repository: call what `decorator(function)` evaluates to
                    deco = self._custom_decorated(fi, self.stack[-1] if self.stack else None)
                    if isinstance(deco, (FuncV, Closure, Partial)) and not (isinstance(deco, FuncV) and deco.fi is fi):
                        a2 = ([fv.self_obj] if fv.self_obj is not None else []) + list(args)
                        return self.call(deco, a2, kwargs, node, self.stack[-1] if self.stack else None)
                    raise self.err(fi.node, f"decorator @{dn} on an analysed function is not modelled")
        self.depth += 1
        if self.depth > 40:
            raise self.err(node or fi.node, "call depth exceeded")
        try:
            env = self.bind_args(fv, args, kwargs, node)
            fr = Frame(fi, env, defcls=fv.defcls or fi.cls, self_obj=fv.self_obj)
            fr.env["__via__"] = fv.via
            self.stack.append(fr)
            is_gen = _has_yield(fi.node)
            if is_gen:
                fr.env["__yield__"] = []
            try:
                self.exec_block(fi.node.body, fr)
            except Return as r:
                if not is_gen:
                    return r.v
            finally:
                self.stack.pop()
            if is_gen:
                return GenV(list(fr.env["__yield__"]))
            return None
        finally:
            self.depth -= 1

    def bind_args(self, fv: FuncV, args: list, kwargs: dict, node=None) -> dict:
        fi = fv.fi
        a = fi.node.args
        params = [x.arg for x in a.posonlyargs + a.args]
        env: dict = {}
        args = list(args)
        if fv.self_obj is not None and not (isinstance(fi.node, ast.FunctionDef) and fi.is_static()):
            args = [fv.self_obj] + args
        defaults = list(a.defaults)
        ndef = len(defaults)
        for i, p in enumerate(params):
            if i < len(args):
                env[p] = args[i]
        extra = args[len(params):]
        if extra:
            if a.vararg is None:
                self.event(
                    "call-shape",
                    node or fi.node,
                    f"too many positional arguments for {fi.qualname}",
                )
                raise Raised("TypeError", node or fi.node, self.stack[-1].fi if self.stack else fi,
                             f"too many positional arguments for {fi.qualname}")
            env[a.vararg.arg] = tuple(extra)
        elif a.vararg is not None:
            env[a.vararg.arg] = ()
        kw_extra = {}
        kwonly = [x.arg for x in a.kwonlyargs]
        for k, v in kwargs.items():
            if k in params or k in kwonly:
                if k in env:
                    raise Raised("TypeError", node or fi.node, fi, f"multiple values for {k}")
                env[k] = v
            else:
                kw_extra[k] = v
        if kw_extra:
            if a.kwarg is None:
                self.event("call-shape", node or fi.node,
                           f"unexpected keyword argument(s) {sorted(kw_extra)} for {fi.qualname}")
                raise Raised("TypeError", node or fi.node, self.stack[-1].fi if self.stack else fi,
                             f"unexpected keyword {sorted(kw_extra)} for {fi.qualname}")
            env[a.kwarg.arg] = kw_extra
        elif a.kwarg is not None:
            env[a.kwarg.arg] = {}
        # defaults
        fr = Frame(fi, {}, defcls=fi.cls)
        for i, p in enumerate(params):
            if p not in env:
                j = i - (len(params) - ndef)
                if j >= 0:
                    env[p] = self._default_value(defaults[j], fr)
                else:
                    self.event("call-shape", node or fi.node,
                               f"missing required argument `{p}` of {fi.qualname}")
                    raise Raised("TypeError", node or fi.node, self.stack[-1].fi if self.stack else fi,
                                 f"missing argument {p} of {fi.qualname}")
        for x, d in zip(a.kwonlyargs, a.kw_defaults):
            if x.arg not in env:
                if d is None:
                    raise Raised("TypeError", node or fi.node, fi, f"missing kw-only {x.arg}")
                env[x.arg] = self._default_value(d, fr)
        return env

    def _default_value(self, dnode, fr):
        """default values are evaluated once, when the function is defined: a mutable
        default is one object shared by all calls"""
        cache = self.__dict__.setdefault("_defaults", {})
        if id(dnode) in cache:
            return cache[id(dnode)][1]
        self.stack.append(fr)
        try:
            v = self.eval(dnode, fr)
        finally:
            self.stack.pop()
        if isinstance(v, (list, dict, set)):
            cache[id(dnode)] = (dnode, v)
            self.__dict__.setdefault("_global_containers", set()).add(id(v))
        return v

    # --------------------------------------------------------- statements
    def exec_block(self, stmts, fr: Frame):
        for st in stmts:
            self.exec_stmt(st, fr)

    def exec_stmt(self, st, fr: Frame):
        self.steps += 1
        if self.steps > 200000:
            raise self.err(st, "step budget exceeded")
        if isinstance(st, ast.Expr):
            if isinstance(st.value, ast.Constant):
                return
            self.eval(st.value, fr)
            return
        if isinstance(st, ast.Assign):
            v = self.eval(st.value, fr)
            for t in st.targets:
                self.assign(t, v, fr)
            return
        if isinstance(st, ast.AnnAssign):
            if st.value is not None:
                self.assign(st.target, self.eval(st.value, fr), fr)
            return
        if isinstance(st, ast.AugAssign):
            self.aug_assign(st, fr)
            return
        if isinstance(st, ast.Return):
            raise Return(self.eval(st.value, fr) if st.value is not None else None)
        if isinstance(st, ast.If):
            c = self.truth(self.eval(st.test, fr), st.test, fr)
            self.exec_block(st.body if c else st.orelse, fr)
            return
        if isinstance(st, ast.For):
            self.exec_for(st, fr)
            return
        if isinstance(st, ast.Assert):
            v = self.eval(st.test, fr)
            c = self.truth(v, st.test, fr)
            if not c:
                self.event("assert-fails", st, f"assertion `{short(st.test, 60)}` is false")
                raise Raised("AssertionError", st, fr.fi, short(st.test, 60))
            return
        if isinstance(st, ast.Raise):
            name = "Exception"
            if st.exc is not None:
                e = st.exc.func if isinstance(st.exc, ast.Call) else st.exc
                name = dotted_name(e) or "Exception"
                # `raise helper(...)` / `raise exc_variable`: the exception is what the
                # expression evaluates to, not the name written after `raise`
                target = None
                if isinstance(e, ast.Name) and e.id in fr.env:
                    target = fr.env[e.id]
                elif isinstance(e, (ast.Name, ast.Attribute)):
                    try:
                        target = self.eval(e, fr)
                    except (AnalysisError, Raised):
                        target = None
                v = None
                if isinstance(target, (FuncV, Closure, Partial)) and isinstance(st.exc, ast.Call):
                    v = self.eval(st.exc, fr)
                elif isinstance(target, Obj) and not isinstance(st.exc, ast.Call):
                    v = target
                if isinstance(v, Obj) and v.kind == "exception":
                    name = v.cls.split(":")[-1]
                elif isinstance(v, ClassV):
                    name = v.fq.split(":")[-1]
                elif v is not None:
                    raise Raised("TypeError", st, fr.fi, "exceptions must derive from BaseException")
            raise Raised(name, st, fr.fi)
        if isinstance(st, ast.Pass):
            return
        if isinstance(st, ast.Delete):
            for t in st.targets:
                if isinstance(t, ast.Subscript):
                    c = self.eval(t.value, fr)
                    k = self.eval(t.slice, fr)
                    if isinstance(c, dict):
                        self.check_owned_container(c, t, fr, "del")
                        if k not in c:
                            raise Raised("KeyError", st, fr.fi, repr(k))
                        del c[k]
                        continue
                raise self.err(st, "unsupported delete")
            return
        if isinstance(st, (ast.Import, ast.ImportFrom)):
            for a in st.names:
                nm = a.asname or a.name.split(".")[0]
                full = (st.module + "." + a.name) if isinstance(st, ast.ImportFrom) and st.module else a.name
                fr.env[nm] = self.resolve_import(full, fr, st)
            return
        if isinstance(st, ast.Try):
            self.exec_try(st, fr)
            return
        if isinstance(st, ast.While):
            n = 0
            while self.truth(self.eval(st.test, fr), st.test, fr):
                n += 1
                if n > 64:
                    raise self.err(st, "while loop does not terminate within 64 iterations")
                try:
                    self.exec_block(st.body, fr)
                except _Break:
                    break
                except _Continue:
                    continue
            return
        if isinstance(st, ast.Break):
            raise _Break()
        if isinstance(st, ast.Continue):
            raise _Continue()
        if isinstance(st, ast.FunctionDef):
            from .front import FunctionInfo
            fi = FunctionInfo(fr.fi.module if fr.fi else "", (fr.fi.qualname + ".<locals>." if fr.fi else "") + st.name, st, cls=None)
            fr.env[st.name] = Closure(fi, fr)
            return
        if isinstance(st, (ast.Global, ast.Nonlocal)):
            return
        if isinstance(st, ast.With):
            sup = []
            for item in st.items:
                v = self.eval(item.context_expr, fr)
                if isinstance(v, SuppressV):
                    sup.extend(v.names)
                if item.optional_vars is not None:
                    self.assign(item.optional_vars, v, fr)
            if not sup:
                self.exec_block(st.body, fr)
                return
            try:
                self.exec_block(st.body, fr)
            except Raised as r:
                exc = r.exc.split(".")[-1]
                fam = {"KeyError": "LookupError", "IndexError": "LookupError", "ModuleNotFoundError": "ImportError"}
                if not (exc in sup or fam.get(exc) in sup or "Exception" in sup or "BaseException" in sup):
                    raise
            return
        raise self.err(st, f"unsupported statement {type(st).__name__}")

    def exec_try(self, st: ast.Try, fr: Frame):
        try:
            try:
                self.exec_block(st.body, fr)
            except Raised as r:
                for h in st.handlers:
                    if self._handler_matches(h, r.exc, fr):
                        # the failure was anticipated by the program: drop the
                        # events recorded for it
                        self.events = [e for e in self.events if e.node is not r.node or e.kind not in ("assert-fails", "stop-iteration", "none-arith", "call-shape")]
                        if h.name:
                            fr.env[h.name] = Builtin(f"<exception {r.exc}>")
                        self.exec_block(h.body, fr)
                        break
                else:
                    raise
            else:
                self.exec_block(st.orelse, fr)
        finally:
            if st.finalbody:
                self.exec_block(st.finalbody, fr)

    def _handler_matches(self, h, exc: str, fr) -> bool:
        if h.type is None:
            return True
        names = []
        ts = h.type.elts if isinstance(h.type, ast.Tuple) else [h.type]
        for t in ts:
            names.append((dotted_name(t) or "").split(".")[-1])
        exc = exc.split(".")[-1]
        if exc in names or "Exception" in names or "BaseException" in names:
            return True
        fam = {"KeyError": "LookupError", "IndexError": "LookupError", "ZeroDivisionError": "ArithmeticError",
               "AxisError": "ValueError"}
        return fam.get(exc) in names

    def resolve_import(self, full, fr, node):
        root = full.split(".")[0]
        if root in ("numpy", "casadi", "networkx"):
            return ExtMod(full)
        tgt = self.prog._resolve_dotted(full, set())
        if tgt is not None:
            if tgt in self.prog.classes:
                return ClassV(tgt)
            mod, _, q = tgt.partition(":")
            return FuncV(self.prog.function(mod, q))
        return ExtMod(full)

    def _abstract_iter(self, it, node):
        """a per-node link view iterated without a node = all links of the network"""
        w = self.world
        if w is not None and type(it).__name__ == "AbsView" and getattr(it, "kind", "") in ("in", "out") \
                and hasattr(w, "all_links_collection"):
            return w.all_links_collection(self, node)
        return it

    def exec_for(self, st: ast.For, fr: Frame):
        it = self._abstract_iter(self.eval(st.iter, fr), st.iter)
        if st.orelse and isinstance(it, Coll) and it.card == "many":
            raise self.err(st, "for-else over an abstract collection is not supported")
        if isinstance(it, Coll) and it.card == "many":
            # abstract loop: one pass with the generic member; appends become families
            self.assign(st.target, it.members[0], fr)
            before = {id(v): len(v) for v in fr.env.values() if isinstance(v, FamList)}
            lists_before = {k: (id(v), len(v)) for k, v in fr.env.items() if isinstance(v, list)}
            fr.env["__famdomain__"] = it.domain
            self.exec_block(st.body, fr)
            fr.env.pop("__famdomain__", None)
            # convert items appended during the pass into family items
            for k, v in list(fr.env.items()):
                if isinstance(v, list) and k in lists_before and lists_before[k][0] == id(v):
                    n0 = lists_before[k][1]
                    if len(v) > n0:
                        new = FamList(v[:n0])
                        for x in v[n0:]:
                            new.append(FamItem(it.domain, x))
                        fr.env[k] = new
            return
        if isinstance(it, LazyV):
            while True:
                ok, x = it.pull(self, st.iter, fr)
                if not ok:
                    if st.orelse:
                        self.exec_block(st.orelse, fr)
                    return
                self.assign(st.target, x, fr)
                try:
                    self.exec_block(st.body, fr)
                except _Break:
                    return
                except _Continue:
                    continue
        for x in self.iterate(it, st.iter, fr):
            if isinstance(x, FamItem):
                self.assign(st.target, x.term, fr)
                lists_before = {k: (id(v), len(v)) for k, v in fr.env.items() if isinstance(v, list)}
                self.exec_block(st.body, fr)
                for k, v in list(fr.env.items()):
                    if isinstance(v, list) and k in lists_before and lists_before[k][0] == id(v):
                        n0 = lists_before[k][1]
                        if len(v) > n0:
                            new = FamList(v[:n0])
                            for y in v[n0:]:
                                new.append(FamItem(x.domain, y))
                            fr.env[k] = new
                continue
            self.assign(st.target, x, fr)
            try:
                self.exec_block(st.body, fr)
            except _Break:
                break
            except _Continue:
                continue
        else:
            # the loop ran to its end without `break`
            if st.orelse:
                self.exec_block(st.orelse, fr)

    def iterate(self, it, node, fr) -> list:
        if isinstance(it, Coll):
            if it.card == "many":
                raise self.err(node, "abstract collection iterated in an unsupported context")
            return list(it.members)
        if isinstance(it, (frozenset, set)):
            # the iteration order of a set is unspecified: a legal order that is not the
            # ascending one is used, so that code relying on "sets come out sorted" shows
            try:
                return sorted(it, reverse=True)
            except TypeError:
                return list(it)
        if isinstance(it, (list, tuple)):
            return list(it)
        if isinstance(it, str):
            return list(it)
        if isinstance(it, dict):
            return list(it.keys())
        if isinstance(it, GenV):
            items, it.items = list(it.items), []  # a generator can be consumed once
            return items
        if isinstance(it, IterV):
            rest = it.items[it.pos:]
            it.pos = len(it.items)
            return rest
        if isinstance(it, LazyV):
            out = []
            while True:
                ok, x = it.pull(self, node, fr)
                if not ok:
                    return out
                out.append(x)
        if self.world is not None:
            r = self.world.iterate(self, it, node)
            if r is not None:
                return r
        raise self.err(node, f"cannot iterate over {type(it).__name__}")

    # ------------------------------------------------------------- assign
    def assign(self, target, v, fr: Frame):
        if isinstance(target, ast.Name):
            fr.env[target.id] = v
            return
        if isinstance(target, (ast.Tuple, ast.List)):
            vals = self.iterate(v, target, fr) if not isinstance(v, (tuple, list)) else list(v)
            if any(isinstance(e, ast.Starred) for e in target.elts):
                k = next(i for i, e in enumerate(target.elts) if isinstance(e, ast.Starred))
                after = len(target.elts) - k - 1
                if len(vals) < len(target.elts) - 1:
                    raise Raised("ValueError", target, fr.fi, "not enough values to unpack")
                for e, x in zip(target.elts[:k], vals[:k]):
                    self.assign(e, x, fr)
                self.assign(target.elts[k].value, list(vals[k:len(vals) - after]), fr)
                for e, x in zip(target.elts[k + 1:], vals[len(vals) - after:] if after else []):
                    self.assign(e, x, fr)
                return
            if len(vals) != len(target.elts):
                raise Raised("ValueError", target, fr.fi, "unpacking length mismatch")
            for e, x in zip(target.elts, vals):
                self.assign(e, x, fr)
            return
        if isinstance(target, ast.Attribute):
            o = self.eval(target.value, fr)
            if isinstance(o, Obj):
                setter = self.prog.lookup_method(o.cls, target.attr + ".setter") if o.cls in self.prog.classes else None
                if setter is not None:
                    self.call_function(FuncV(setter, o, defcls=setter.cls), [v], {}, target)
                    return
                if self.world is not None:
                    self.world.on_setattr(self, o, target.attr, v, target)
                o.attrs[target.attr] = v
                return
            if isinstance(o, ClassV):
                self.event("class-attr-store", target,
                           f"`{short(target, 50)}` stores on the class {o.fq.split(':')[-1]}: the value is shared by all instances")
                self.class_overlay[(o.fq, target.attr)] = v
                return
            if isinstance(o, ExtMod) and self.world is not None:
                r = self.world.on_module_store(self, o.name, target.attr, v, target)
                if r is not NotImplemented:
                    return
            raise self.err(target, "attribute store on non-object")
        if isinstance(target, ast.Subscript):
            c = self.eval(target.value, fr)
            if isinstance(c, dict):
                k = self.eval(target.slice, fr)
                self.check_owned_container(c, target, fr, "store")
                if isinstance(v, TV) and v.fresh and self.world is not None and hasattr(self.world, "is_element_dict") \
                        and self.world.is_element_dict(c):
                    # an array published as an element's (next) state belongs to whoever reads it there
                    v = TV(v.t, v.rank, False, v.origin or f"element variable `{k}`")
                c[k] = v
                return
            if isinstance(c, TV):
                self.store_sub(target, c, v, fr, aug=None)
                return
            if isinstance(c, list):
                k = self.eval(target.slice, fr)
                if isinstance(k, int):
                    c[k] = v
                    return
            raise self.err(target, "unsupported subscript store")
        raise self.err(target, "unsupported assignment target")

    def check_owned_container(self, c, node, fr, how):
        self.global_state_store(c, node)
        if self.world is not None:
            self.world.on_container_mutation(self, c, node, how)

    def global_state_store(self, c, node):
        """a container that lives at module / class level, or is the default value of a parameter,
        is modified: state that survives the call and is shared by every caller"""
        if id(c) in self.__dict__.get("_global_containers", ()):
            self.event("global-state-store", node, f"`{short(node, 60)}` modifies a module-level / class-level / "
                                                   "default-argument container: state kept between calls")

    def aug_assign(self, st: ast.AugAssign, fr: Frame):
        rhs = self.eval(st.value, fr)
        op = st.op
        if isinstance(st.target, ast.Name):
            cur = fr.env.get(st.target.id)
            if cur is None and st.target.id not in fr.env:
                raise self.err(st, "augmented assignment to unbound name")
            if isinstance(cur, TV):
                # numpy arrays are updated in place by `x op= y`
                if not cur.fresh and cur.rank != 0:
                    self.event(
                        "mutates-shared",
                        st,
                        f"`{short(st, 60)}` updates `{st.target.id}` in place, which may alias "
                        f"data owned by the caller or an element state ({cur.origin or E.fmt(cur.t, 60)})",
                    )
                elif not cur.fresh and cur.rank == 0 and self.lib == "numpy":
                    self.event(
                        "mutates-shared",
                        st,
                        f"`{short(st, 60)}` updates `{st.target.id}` in place; it aliases "
                        f"{cur.origin or E.fmt(cur.t, 60)} (a 0-d array would be modified)",
                    )
            if isinstance(cur, str) and isinstance(rhs, str) and isinstance(op, ast.Add):
                fr.env[st.target.id] = cur + rhs
                return
            if isinstance(cur, list) and isinstance(op, ast.Add):
                # `lst += it` extends the same list object
                cur.extend(self.iterate(rhs, st, fr))
                return
            if isinstance(cur, set) and isinstance(op, ast.BitOr) and isinstance(rhs, (set, frozenset)):
                cur.update(rhs)
                return
            if isinstance(cur, dict) and isinstance(op, ast.BitOr) and isinstance(rhs, dict):
                self.check_owned_container(cur, st, fr, "update")
                cur.update(rhs)
                return
            r = self.binop(op, cur, rhs, st)
            if isinstance(r, TV) and isinstance(cur, TV):
                r.fresh = cur.fresh if cur.rank != 0 else True
                if isinstance(cur, TV) and cur.rank == 1:
                    r.rank = 1
            fr.env[st.target.id] = r
            return
        if isinstance(st.target, ast.Subscript):
            c = self.eval(st.target.value, fr)
            if isinstance(c, TV):
                self.store_sub(st.target, c, rhs, fr, aug=op)
                return
            if isinstance(c, dict):
                k = self.eval(st.target.slice, fr)
                self.check_owned_container(c, st.target, fr, "store")
                c[k] = self.binop(op, c[k], rhs, st)
                return
        raise self.err(st, "unsupported augmented assignment")

    def store_sub(self, target: ast.Subscript, c: TV, v, fr: Frame, aug):
        """x[k] = v / x[k] op= v on a symbolic vector held in a local name: rebinding
        the name to the functional update (the object identity is the local's)."""
        if not isinstance(target.value, ast.Name):
            raise self.err(target, "element store into a non-local vector")
        name = target.value.id
        if not c.fresh:
            self.event(
                "mutates-shared",
                target,
                f"element store into `{name}` which may alias data owned by the caller or an "
                f"element state ({c.origin or E.fmt(c.t, 60)})",
            )
        sl = target.slice
        v = self.to_tv(v, target)
        if isinstance(sl, ast.Constant) and sl.value is Ellipsis:
            # x[...] = v overwrites the whole array in place (the non-fresh case was reported above)
            newv = self.binop(aug, c, v, target) if aug is not None else v
            fr.env[name] = TV(newv.t, c.rank, c.fresh, c.origin)
            return
        if isinstance(sl, ast.Slice):
            lo = self._const_int(sl.lower, fr)
            hi = self._const_int(sl.upper, fr)
            if sl.step is not None:
                raise self.err(target, "slice step")
            if (lo in (None, 0)) and hi == 1:
                k = 0
            elif lo == -1 and hi is None:
                k = -1
            else:
                raise self.err(target, "unsupported slice store")
            slice_store = True
        else:
            kv = self.eval(sl, fr)
            slice_store = False
            if isinstance(kv, (list, tuple)) and all(isinstance(i, int) and not isinstance(i, bool) for i in kv):
                # x[[i, j, ...]] (op)= v : element-wise scatter
                cur_t = c.t
                vlen = None
                try:
                    vlen = E.seglen(E.shape(v.t, self.world.env if self.world else E.Env()),
                                    self.world.env if self.world else E.Env())
                except E.ShapeError:
                    vlen = None
                if vlen not in (1, len(kv)):
                    self.event("shape-mismatch", target, f"{len(kv)} positions assigned from a value of length {vlen}")
                    raise Raised("ValueError", target, fr.fi, "shape mismatch in fancy assignment")
                for j, i in enumerate(kv):
                    item = v if vlen == 1 else TV(E.idx(v.t, j), 0)
                    if aug is not None:
                        item = self.binop(aug, TV(E.idx(c.t, i), 0), item, target)
                    cur_t = ("upd", cur_t, i, item.t)
                fr.env[name] = TV(cur_t, c.rank, c.fresh, c.origin)
                self.check_shape(fr.env[name], target)
                return
            if isinstance(kv, int) and not isinstance(kv, bool):
                k = kv
            elif isinstance(kv, IndexSet):
                cur = TV(("idxset", c.t, kv.name), 1)
                newv = self.binop(aug, cur, v, target) if aug is not None else v
                fr.env[name] = TV(("updset", c.t, kv.name, newv.t), c.rank, c.fresh, c.origin)
                return
            else:
                raise self.err(target, "unsupported index in element store")
        cur = TV(E.idx(c.t, k), 0)
        newv = self.binop(aug, cur, v, target) if aug is not None else v
        # rank discipline (numpy): an integer-indexed slot holds a scalar
        if not slice_store and self.lib == "numpy" and c.rank == 1 and v.rank == 1:
            self.event(
                "rank-store",
                target,
                f"`{short(target, 40)}` is a scalar slot but the stored value is a 1-d array "
                f"({E.fmt(v.t, 80)}): numpy >= 2 raises 'setting an array element with a sequence'",
            )
        fr.env[name] = TV(("upd", c.t, k, newv.t), c.rank, c.fresh, c.origin)

    def _const_int(self, node, fr):
        if node is None:
            return None
        v = self.eval(node, fr)
        if isinstance(v, int) and not isinstance(v, bool):
            return v
        raise self.err(node, "non-constant slice bound")

    # ----------------------------------------------------------- truthiness
    def truth(self, v, node, fr) -> bool:
        if isinstance(v, TV):
            if self.world is not None:
                r = self.world.decide(self, v, node)
                if r is not None:
                    return r
            self.event("symbolic-truth", node,
                       f"python truth value of a symbolic quantity `{short(node, 60)}` ({E.fmt(v.t, 80)})")
            raise self.err(node, "control flow depends on a symbolic value")
        if v is None or isinstance(v, (bool, int, float, str, tuple, list, dict)):
            return bool(v)
        if isinstance(v, (FamList,)):
            return bool(v)
        if isinstance(v, Coll):
            return v.card != 0
        if isinstance(v, AbsInt):
            return True
        if isinstance(v, (Obj, ClassV, FuncV)):
            return True
        if isinstance(v, (set, frozenset)):
            return bool(v)
        if isinstance(v, IndexSet):
            raise self.err(node, "truth value of an abstract index set")
        if isinstance(v, FamItem):
            t = v.term
            if isinstance(t, (bool, int, float, str)) or t is None or isinstance(t, (Obj, tuple)):
                return self.truth(t, node, fr)  # the same for every member of the family
        raise self.err(node, f"truth value of {type(v).__name__}")

    # ---------------------------------------------------------- expressions
    def eval(self, node, fr: Frame):
        m = getattr(self, "e_" + type(node).__name__, None)
        if m is None:
            raise self.err(node, f"unsupported expression {type(node).__name__}")
        return m(node, fr)

    def e_Constant(self, n, fr):
        return n.value

    def e_Name(self, n, fr):
        if n.id in fr.env:
            return fr.env[n.id]
        return self.lookup_global(n.id, fr, n)

    def lookup_global(self, name, fr, node):
        fi = fr.fi
        mi = self.prog.modules[fi.module] if fi is not None else None
        if mi is not None:
            if name in mi.classes:
                return ClassV(mi.classes[name].fq)
            if name in mi.functions:
                return FuncV(mi.functions[name])
            if name in mi.assigns:
                v = mi.assigns[name]
                if isinstance(v, ast.Constant):
                    return v.value
                return self.eval_module_assign(mi, name, v, node)
            if name in mi.imports:
                full = mi.imports[name]
                tgt = self.prog.resolve_name(mi, name)
                if tgt is not None:
                    if tgt in self.prog.classes:
                        return ClassV(tgt)
                    mod, _, q = tgt.partition(":")
                    return FuncV(self.prog.function(mod, q))
                root = full.split(".")[0]
                if root in ("numpy", "casadi", "networkx"):
                    return ExtMod(full)
                # constants re-exported from repo modules
                modname, _, obj = full.rpartition(".")
                if modname in self.prog.modules and obj in self.prog.modules[modname].assigns:
                    v = self.prog.modules[modname].assigns[obj]
                    if isinstance(v, ast.Constant):
                        return v.value
                    return self.eval_module_assign(self.prog.modules[modname], obj, v, node)
                if full in self.prog.modules:
                    return ExtMod(full)
                return ExtMod(full)
        if name in PY_BUILTINS:
            return Builtin(name)
        import builtins as _b
        if isinstance(getattr(_b, name, None), type) and issubclass(getattr(_b, name), BaseException):
            return Builtin(name)  # a built-in exception class
        raise self.err(node, f"unbound name {name}")

    def eval_module_assign(self, mi, name, v, node):
        """module-level `X = <expr>` (dispatch tables, getters, tuples of names, TypeVars)"""
        key = (mi.name, name)
        memo = self.__dict__.setdefault("_modvals", {})
        if key in memo:
            return memo[key]
        if isinstance(v, ast.Call) and (dotted_name(v.func) or "").split(".")[-1] in ("TypeVar", "NewType", "getLogger"):
            memo[key] = Builtin(f"<module-object {name}>")
            return memo[key]
        from .front import FunctionInfo

        pseudo = FunctionInfo(mi.name, "<module>", ast.parse("def _m(): pass").body[0])
        fr = Frame(pseudo, {})
        self.stack.append(fr)
        try:
            val = self.eval(v, fr)
        except AnalysisError:
            val = Builtin(f"<module-object {name}>")
        finally:
            self.stack.pop()
        if isinstance(val, (dict, list, set)):
            self.__dict__.setdefault("_global_containers", set()).add(id(val))
        memo[key] = val
        return val

    def e_Tuple(self, n, fr):
        return tuple(self._elts(n.elts, fr))

    def e_List(self, n, fr):
        return list(self._elts(n.elts, fr))

    def _elts(self, elts, fr):
        out = []
        for e in elts:
            if isinstance(e, ast.Starred):
                out.extend(self.star_items(self.eval(e.value, fr), e, fr))
            else:
                out.append(self.eval(e, fr))
        return out

    def star_items(self, v, node, fr) -> list:
        if isinstance(v, (list, tuple)):
            return list(v)
        if isinstance(v, GenV):
            items, v.items = list(v.items), []
            return items
        return self.iterate(v, node, fr)

    def e_Dict(self, n, fr):
        d = {}
        for k, v in zip(n.keys, n.values):
            if k is None:
                sub = self.eval(v, fr)
                if not isinstance(sub, dict):
                    raise self.err(n, "** of non-dict in display")
                d.update(sub)
            else:
                d[self.eval(k, fr)] = self.eval(v, fr)
        if self.world is not None:
            self.world.on_new_container(self, d, n)
        return d

    def e_Set(self, n, fr):
        items = self._elts(n.elts, fr)
        self._value_set(items, n)
        return set(items)

    def _value_set(self, items, n):
        if any(isinstance(x, TV) or (isinstance(x, FamItem) and isinstance(x.term, TV)) for x in items):
            self.event("value-set", n, f"`{short(n, 60)}` puts model quantities into a set: members with equal values "
                                       "collapse (and NumPy arrays are not hashable)")

    def e_SetComp(self, n, fr):
        items = self._comp(n, fr, lambda f: self.eval(n.elt, f))
        self._value_set(items, n)
        return set(items)

    def e_JoinedStr(self, n, fr):
        parts = []
        for v in n.values:
            if isinstance(v, ast.Constant):
                parts.append(str(v.value))
            else:
                x = self.eval(v.value, fr)
                if isinstance(x, TV):
                    self.event("symbolic-format", n, f"symbolic value formatted into a string")
                    parts.append("<sym>")
                else:
                    parts.append(str(x.attrs.get("name", x.ident)) if isinstance(x, Obj) else str(x))
        return "".join(parts)

    def e_IfExp(self, n, fr):
        c = self.eval(n.test, fr)
        if isinstance(c, TV):
            # value selected by a symbolic condition: numpy evaluates the python truth
            # value of the array (defined only for size-1 values); casadi's counterpart
            # is if_else.
            va, vb = self.eval(n.body, fr), self.eval(n.orelse, fr)
            numeric = lambda x: isinstance(x, TV) or (isinstance(x, (int, float)) and not isinstance(x, bool))  # noqa: E731
            if not (numeric(va) and numeric(vb)):
                # e.g. `None if x == 0 else x`: a python-level decision, explored both ways
                d = self.world.decide(self, c, n.test) if self.world is not None else None
                if d is None:
                    raise self.err(n, "conditional expression on a symbolic value with non-numeric branches")
                return va if d else vb
            self.event("symbolic-ifexp", n, f"conditional expression on `{short(n.test, 50)}`",
                       data={"rank": c.rank, "shape_scalar": self._is_scalar(c)})
            a = self.to_tv(va, n)
            b = self.to_tv(vb, n)
            return TV(("ite", c.t, a.t, b.t), max(a.rank or 0, b.rank or 0))
        return self.eval(n.body if self.truth(c, n.test, fr) else n.orelse, fr)

    def _is_scalar(self, v: TV) -> bool:
        try:
            return E.shape(v.t, self.world.env if self.world else E.Env()) == E.SC
        except Exception:
            return False

    def e_BoolOp(self, n, fr):
        if isinstance(n.op, ast.And):
            v = True
            for x in n.values:
                v = self.eval(x, fr)
                if not self.truth(v, x, fr):
                    return v
            return v
        v = False
        for x in n.values:
            v = self.eval(x, fr)
            if self.truth(v, x, fr):
                return v
        return v

    def e_UnaryOp(self, n, fr):
        v = self.eval(n.operand, fr)
        if isinstance(n.op, ast.Not):
            return not self.truth(v, n.operand, fr)
        if isinstance(n.op, ast.USub):
            if isinstance(v, TV):
                return TV(E.neg(v.t), v.rank)
            if isinstance(v, (int, float)) and not isinstance(v, bool):
                return -v
        if isinstance(n.op, ast.UAdd):
            return v
        raise self.err(n, "unsupported unary operator")

    def e_BinOp(self, n, fr):
        return self.binop(n.op, self.eval(n.left, fr), self.eval(n.right, fr), n)

    def to_tv(self, v, node) -> TV:
        if isinstance(v, TV):
            return v
        if isinstance(v, bool):
            raise self.err(node, "boolean used in arithmetic")
        if isinstance(v, (int, float, Fraction)):
            return TV(E.C(v), None)
        if v is None:
            self.event("none-arith", node, f"None reaches arithmetic in `{short(node, 60)}`")
            raise Raised("TypeError", node, self.stack[-1].fi if self.stack else None, "None in arithmetic")
        if isinstance(v, AbsInt):
            raise self.err(node, "abstract count used in arithmetic")
        raise self.err(node, f"{type(v).__name__} used in arithmetic")

    def binop(self, op, a, b, node):
        if isinstance(a, (set, frozenset, KeysV)) and isinstance(b, (set, frozenset, KeysV)):
            fa, fb = frozenset(a), frozenset(b)
            r = {ast.BitOr: fa | fb, ast.BitAnd: fa & fb, ast.Sub: fa - fb, ast.BitXor: fa ^ fb}.get(type(op))
            if r is not None:
                return r
        if isinstance(a, (int, float)) and isinstance(b, (int, float)) and not isinstance(a, bool) and not isinstance(b, bool):
            try:
                if isinstance(op, ast.Add):
                    return a + b
                if isinstance(op, ast.Sub):
                    return a - b
                if isinstance(op, ast.Mult):
                    return a * b
                if isinstance(op, ast.Div):
                    if isinstance(a, int) and isinstance(b, int) and b != 0:
                        f = Fraction(a, b)
                        return f.numerator if f.denominator == 1 else TV(("c", f), None)
                    return a / b
                if isinstance(op, ast.Pow):
                    return a**b
                if isinstance(op, ast.FloorDiv):
                    return a // b
                if isinstance(op, ast.Mod):
                    return a % b
            except ZeroDivisionError:
                raise Raised("ZeroDivisionError", node, self.stack[-1].fi if self.stack else None)
        if isinstance(a, str) and isinstance(b, str) and isinstance(op, ast.Add):
            return a + b
        if isinstance(a, list) and isinstance(b, list) and isinstance(op, ast.Add):
            return a + b
        if isinstance(a, tuple) and isinstance(b, tuple) and isinstance(op, ast.Add):
            return a + b
        ta, tb = self.to_tv(a, node), self.to_tv(b, node)
        rank = None
        for r in (ta.rank, tb.rank):
            if r is not None:
                rank = r if rank is None else max(rank, r)
        if isinstance(op, ast.Add):
            t = E.add(ta.t, tb.t)
        elif isinstance(op, ast.Sub):
            t = E.sub(ta.t, tb.t)
        elif isinstance(op, ast.Mult):
            t = E.mul(ta.t, tb.t)
        elif isinstance(op, ast.Div):
            t = E.div(ta.t, tb.t)
        elif isinstance(op, ast.Pow):
            t = E.pow_(ta.t, tb.t)
        else:
            raise self.err(node, f"unsupported operator {type(op).__name__} on symbolic values")
        out = TV(t, rank if rank is not None else 0)
        self.check_shape(out, node)
        return out

    def check_shape(self, v: TV, node):
        try:
            E.shape(v.t, self.world.env if self.world else E.Env())
        except E.ShapeError as e:
            self.event("shape-mismatch", node, str(e))
            raise Raised("ValueError", node, self.stack[-1].fi if self.stack else None, f"shape: {e}")

    def e_Compare(self, n, fr):
        left = self.eval(n.left, fr)
        res = True
        for op, rn in zip(n.ops, n.comparators):
            right = self.eval(rn, fr)
            r = self.compare(op, left, right, n, fr)
            if isinstance(r, TV):
                if len(n.ops) > 1:
                    raise self.err(n, "chained symbolic comparison")
                return r
            if not r:
                return False
            left = right
        return res

    def compare(self, op, a, b, node, fr):
        if isinstance(op, (ast.Is, ast.IsNot)):
            same = a is b or (a is None and b is None)
            if not same:
                if isinstance(a, ClassV) and isinstance(b, ClassV):
                    same = a.fq == b.fq
                elif isinstance(a, Builtin) and isinstance(b, Builtin):
                    same = a.name == b.name
                elif isinstance(a, ExtMod) and isinstance(b, ExtMod):
                    same = a.name == b.name
                elif isinstance(a, FuncV) and isinstance(b, FuncV):
                    same = a.fi is b.fi and a.self_obj is b.self_obj
                elif isinstance(a, bool) and isinstance(b, bool):
                    same = a == b
            return same if isinstance(op, ast.Is) else not same
        if isinstance(op, (ast.Is, ast.IsNot)) and isinstance(a, (str, int, float)) and isinstance(b, (str, int, float)) \
                and not isinstance(a, bool) and not isinstance(b, bool):
            self.event("value-identity", node, f"`{short(node, 60)}` compares values by identity: an equal string / number "
                                               "created at run time is a different object")
        if isinstance(op, (ast.In, ast.NotIn)):
            r = self.contains(b, a, node, fr)
            return r if isinstance(op, ast.In) else not r
        if isinstance(a, AbsInt) or isinstance(b, AbsInt):
            return self.cmp_absint(op, a, b, node)
        if isinstance(a, ShapeV) and isinstance(b, ShapeV):
            if isinstance(op, ast.Eq):
                return a.sh == b.sh and a.nd == b.nd
            if isinstance(op, ast.NotEq):
                return not (a.sh == b.sh and a.nd == b.nd)
        if isinstance(a, TV) or isinstance(b, TV):
            if a is None or b is None:
                # `x == None` style comparisons: identity semantics
                if isinstance(op, ast.Eq):
                    return False
                if isinstance(op, ast.NotEq):
                    return True
            ta, tb = self.to_tv(a, node), self.to_tv(b, node)
            name = {ast.Lt: "lt", ast.LtE: "le", ast.Gt: "gt", ast.GtE: "ge", ast.Eq: "eq", ast.NotEq: "ne"}.get(type(op))
            if name is None:
                raise self.err(node, "unsupported symbolic comparison")
            return TV(("cmp", name, ta.t, tb.t), max(ta.rank or 0, tb.rank or 0))
        if isinstance(a, ClassV) and isinstance(b, ClassV) and isinstance(op, (ast.Eq, ast.NotEq)):
            return (a.fq == b.fq) == isinstance(op, ast.Eq)
        if (isinstance(a, KeysV) and isinstance(b, (KeysV, set, frozenset))) or \
                (isinstance(b, KeysV) and isinstance(a, (set, frozenset))):
            # dict views compare like sets
            try:
                a, b = set(a), set(b)
            except TypeError:
                raise self.err(node, "unhashable keys")
        try:
            if isinstance(op, ast.Eq):
                return a == b
            if isinstance(op, ast.NotEq):
                return a != b
            if isinstance(op, ast.Lt):
                return a < b
            if isinstance(op, ast.LtE):
                return a <= b
            if isinstance(op, ast.Gt):
                return a > b
            if isinstance(op, ast.GtE):
                return a >= b
        except TypeError:
            raise Raised("TypeError", node, fr.fi, "unorderable operands")
        raise self.err(node, "unsupported comparison")

    def cmp_absint(self, op, a, b, node):
        swap = isinstance(b, AbsInt)
        if swap:
            a, b = b, a
            op = {ast.Lt: ast.Gt, ast.Gt: ast.Lt, ast.LtE: ast.GtE, ast.GtE: ast.LtE}.get(type(op), type(op))()
        if not isinstance(b, int) or isinstance(b, bool):
            raise self.err(node, "abstract count compared with a non-integer")
        # a >= 2
        if isinstance(op, ast.Eq):
            if b <= 1:
                return False
        elif isinstance(op, ast.NotEq):
            if b <= 1:
                return True
        elif isinstance(op, ast.Gt):
            if b <= 1:
                return True
        elif isinstance(op, ast.GtE):
            if b <= 2:
                return True
        elif isinstance(op, ast.Lt):
            if b <= 2:
                return False
        elif isinstance(op, ast.LtE):
            if b <= 1:
                return False
        raise self.err(node, f"comparison of an abstract count (>= 2) with {b} is not determined; "
                             "the cardinality abstraction {0,1,>=2} is no longer exact")

    def contains(self, container, item, node, fr) -> bool:
        if isinstance(container, dict):
            try:
                return item in container
            except TypeError:
                raise self.err(node, "unhashable key")
        if isinstance(container, (list, tuple, frozenset, set, str)):
            return item in container
        if self.world is not None:
            r = self.world.contains(self, container, item, node)
            if r is not None:
                return r
        raise self.err(node, f"membership test on {type(container).__name__}")

    def _mangle(self, attr, fr):
        """`__name` inside a class body is `_Class__name`"""
        if attr.startswith("__") and not attr.endswith("__") and fr is not None and fr.defcls:
            return f"_{fr.defcls.split(':')[-1].lstrip('_')}{attr}"
        return attr

    def e_Attribute(self, n, fr):
        o = self.eval(n.value, fr)
        return self.getattr(o, self._mangle(n.attr, fr), n, fr)

    def getattr(self, o, attr, node, fr):
        if isinstance(o, Obj):
            if self.world is not None:
                r = self.world.getattr(self, o, attr, node)
                if r is not NotImplemented:
                    return r
            if attr in o.attrs:
                return o.attrs[attr]
            if attr == "__dict__":
                return o.attrs  # the instance dictionary
            if self.class_overlay and o.cls in self.prog.classes:
                for c in self.prog.mro(o.cls):
                    if (c, attr) in self.class_overlay:
                        return self.class_overlay[(c, attr)]
            # class attribute / method / property through the MRO
            m = self.prog.lookup_method(o.cls, attr) if o.cls in self.prog.classes else None
            if m is None and attr.startswith("_") and "__" in attr[1:] and o.cls in self.prog.classes:
                # a name-mangled private method `_Class__name`
                cname, _, rest = attr[1:].partition("__")
                for c in self.prog.mro(o.cls):
                    if c.split(":")[-1].lstrip("_") == cname and ("__" + rest) in self.prog.classes[c].methods:
                        m = self.prog.classes[c].methods["__" + rest]
                        break
            if m is not None:
                deco = self._custom_decorated(m, fr)
                if deco is not NotImplemented:
                    if isinstance(deco, PropV):
                        return self._prop_get(deco, o, attr, node, fr)
                    if isinstance(deco, (FuncV, Closure, Partial)):
                        return Partial(deco, (o,), {})
                    return deco
                if m.is_property():
                    return self.call_function(FuncV(m, o, defcls=m.cls), [], {}, node)
                if _is_classmethod(m):
                    return FuncV(m, ClassV(o.cls), defcls=m.cls)
                return FuncV(m, None if m.is_static() else o, defcls=m.cls)
            ca, owner = self.prog.lookup_class_attr(o.cls, attr) if o.cls in self.prog.classes else (None, None)
            if ca is None and attr.startswith("_") and "__" in attr[1:] and o.cls in self.prog.classes:
                cname, _, rest = attr[1:].partition("__")  # name-mangled class attribute
                for c in self.prog.mro(o.cls):
                    if c.split(":")[-1].lstrip("_") == cname and ("__" + rest) in self.prog.classes[c].attrs:
                        ca, owner = self.prog.classes[c].attrs["__" + rest], c
                        break
            if ca is not None:
                v = self.eval_class_attr(ca, owner)
                if isinstance(v, PropV):
                    return self._prop_get(v, o, attr, node, fr)
                if isinstance(v, FuncV) and v.self_obj is None and not (
                        isinstance(v.fi.node, ast.FunctionDef) and v.fi.is_static()):
                    # `alias = other_method` in the class body: bound like a method
                    return FuncV(v.fi, o, via=v.via, defcls=v.defcls)
                if isinstance(v, Closure):
                    return Partial(v, (o,), {})
                return v
            if attr == "__class__":
                return ClassV(o.cls)
            raise Raised("AttributeError", node, fr.fi if fr else None, f"{o!r} has no attribute {attr}")
        if isinstance(o, ClassV):
            if attr == "__name__":
                return o.fq.split(":")[-1]
            if self.class_overlay and o.fq in self.prog.classes:
                for c in self.prog.mro(o.fq):
                    if (c, attr) in self.class_overlay:
                        return self.class_overlay[(c, attr)]
            m = self.prog.lookup_method(o.fq, attr)
            if m is not None:
                if _is_classmethod(m):
                    return FuncV(m, ClassV(o.fq, via=o.via), via=o.via, defcls=m.cls, acc_cls=o.fq)
                return FuncV(m, None, via=o.via, defcls=m.cls, acc_cls=o.fq)
            ca, owner = self.prog.lookup_class_attr(o.fq, attr)
            if ca is not None:
                return self.eval_class_attr(ca, owner)
            raise Raised("AttributeError", node, fr.fi, f"class {o.fq} has no attribute {attr}")
        if isinstance(o, SuperV):
            m = self.prog.lookup_method(o.obj.cls, attr, after=o.after)
            if m is None and self.world is not None and hasattr(self.world, "super_getattr"):
                r = self.world.super_getattr(self, o.obj, attr, node)
                if r is not None:
                    return r
            if m is None:
                if attr in ("__init__", "__init_subclass__"):
                    return _Const(None)  # object.__init__
                raise Raised("AttributeError", node, fr.fi, f"super() has no {attr}")
            return FuncV(m, o.obj, defcls=m.cls)
        if isinstance(o, (FuncV, Closure)):
            fi_ = o.fi if isinstance(o, FuncV) else getattr(o, "fi", None)
            nm_ = fi_.name if fi_ is not None else "<lambda>"
            if attr == "__name__":
                return nm_
            if attr == "__qualname__":
                return fi_.qualname if fi_ is not None else nm_
            if attr == "__doc__":
                return ast.get_docstring(fi_.node) if fi_ is not None and isinstance(fi_.node, ast.FunctionDef) else None
            if attr in ("__annotations__", "__dict__"):
                return {}
            if attr == "__module__":
                return fi_.module if fi_ is not None else None
            if attr == "__wrapped__" and isinstance(o, FuncV):
                return o
            raise Raised("AttributeError", node, fr.fi if fr else None, f"function has no attribute {attr}")
        if isinstance(o, ExtMod):
            if self.world is not None:
                r = self.world.module_attr(self, o.name, attr, node)
                if r is not NotImplemented:
                    return r
            if o.name == "math" and attr in ("inf", "pi", "e"):
                import math as _m

                return getattr(_m, attr)
            if o.name in ("numpy", "casadi") and attr == "inf":
                return float("inf")
            tgt = self.prog._resolve_dotted(o.name + "." + attr, set())
            if tgt is not None:
                if tgt in self.prog.classes:
                    return ClassV(tgt)
                mod, _, q = tgt.partition(":")
                return FuncV(self.prog.function(mod, q))
            return ExtMod(o.name + "." + attr)
        if isinstance(o, TV):
            if attr == "shape":
                try:
                    return ShapeV(E.shape(o.t, self.world.env if self.world else E.Env()),
                                  2 if self.lib == "casadi" else (0 if o.rank == 0 else 1))
                except E.ShapeError as e:
                    self.event("shape-mismatch", node, str(e))
                    raise Raised("ValueError", node, fr.fi, str(e))
            if attr in ("T",):
                return o
            if attr == "copy":
                return _Const(TV(o.t, o.rank, True, ""))
            if self.lib == "numpy" and attr == "ndim":
                return 0 if o.rank == 0 else 1
            if self.lib == "numpy" and attr == "dtype":
                return DTypeV(o)
            if self.lib == "numpy" and attr == "astype":
                return _AsType(o)
            if self.world is not None:
                r = self.world.getattr(self, o, attr, node)
                if r is not NotImplemented:
                    return r
            raise self.err(node, f"attribute {attr} of a symbolic value")
        if isinstance(o, dict):
            if attr in ("get", "items", "keys", "values", "update", "pop", "setdefault", "copy", "clear"):
                return BoundDictMethod(o, attr)
        if isinstance(o, list):
            if attr in ("append", "extend", "insert", "pop", "index", "count", "copy", "reverse", "sort", "clear", "remove"):
                return BoundListMethod(o, attr)
        if isinstance(o, (set, frozenset)):
            if attr in ("add", "discard", "remove", "update", "union", "intersection", "difference", "copy",
                        "issubset", "issuperset", "clear", "pop"):
                return BoundSetMethod(o, attr)
        if isinstance(o, str):
            if attr in ("format", "join", "startswith", "endswith", "lower", "upper"):
                return BoundStrMethod(o, attr)
        if self.world is not None:
            r = self.world.getattr(self, o, attr, node)
            if r is not NotImplemented:
                return r
        if isinstance(o, (dict, list, tuple, set, frozenset, str, int, float, bool, type(None))) \
                and not hasattr(type(o), attr):
            # python itself would raise here
            raise Raised("AttributeError", node, fr.fi if fr else None,
                         f"'{type(o).__name__}' object has no attribute '{attr}'")
        raise self.err(node, f"attribute {attr} of {type(o).__name__}")

    KNOWN_DECORATORS = ("staticmethod", "classmethod", "property", "abstractmethod", "wraps", "cache", "lru_cache",
                        "cached_property", "invalidate_cache", "setter", "override", "overload")

    def _custom_decorated(self, m, fr):
        """what a method decorated with a decorator *of the repository* evaluates to
        (`decorator(function)`, innermost first); NotImplemented for the known decorators"""
        decs = getattr(m.node, "decorator_list", [])
        custom = [d for d in decs if (dotted_name(d.func if isinstance(d, ast.Call) else d) or "").split(".")[-1]
                  not in self.KNOWN_DECORATORS]
        if not custom:
            return NotImplemented
        memo = self.__dict__.setdefault("_decorated", {})
        if m.fq in memo:
            return memo[m.fq]
        ci = self.prog.classes.get(m.cls) if m.cls else None
        fn = ast.FunctionDef(name="<class body>", args=ast.arguments(posonlyargs=[], args=[], kwonlyargs=[],
                                                                     kw_defaults=[], defaults=[]),
                             body=[], decorator_list=[], lineno=m.node.lineno, col_offset=0)
        fi = FunctionInfo(m.module, "<class body>", fn, cls=None)
        fr2 = Frame(fi, _ClassScope(self, ci) if ci is not None else {}, defcls=m.cls)
        val = FuncV(m, None, defcls=m.cls)
        val.raw = True  # call the undecorated body
        self.stack.append(fr2)
        try:
            for d in reversed(decs):
                dn = (dotted_name(d.func if isinstance(d, ast.Call) else d) or "").split(".")[-1]
                if dn in ("property",):
                    val = PropV(val, False, m.name)
                elif dn == "cached_property":
                    val = PropV(val, True, m.name)
                elif dn in self.KNOWN_DECORATORS:
                    continue
                else:
                    val = self.call(self.eval(d, fr2), [val], {}, d, fr2)
        finally:
            self.stack.pop()
        memo[m.fq] = val
        return val

    def find_method(self, cls_fq: str, name: str):
        """the function a method name of a repository class resolves to: a `def` in the MRO, or
        a class attribute that evaluates to a function (`__iter__ = Other.__iter__`)"""
        if cls_fq not in self.prog.classes:
            return None
        for c in self.prog.mro(cls_fq):
            ci = self.prog.classes[c]
            if name in ci.methods:
                return ci.methods[name]
            if name in ci.attrs:
                v = self.eval_class_attr(ci.attrs[name], c)
                if isinstance(v, FuncV):
                    return v.fi
                return None
        return None

    def _prop_get(self, p: "PropV", o, attr, node, fr):
        def compute():
            return self.call(p.fget, [o], {}, node, fr)
        if p.cached and self.world is not None and hasattr(self.world, "cached_property_get"):
            return self.world.cached_property_get(self, o, attr, compute)
        return compute()

    def eval_class_attr(self, ca, owner):
        fr = Frame(None, {})
        # class attributes are sets/tuples of strings or constants
        if isinstance(ca, ast.Set) and all(isinstance(e, ast.Constant) for e in ca.elts):
            return frozenset(e.value for e in ca.elts)
        if isinstance(ca, ast.Call) and dotted_name(ca.func) == "set" and not ca.args:
            return frozenset()
        if isinstance(ca, ast.Constant):
            return ca.value
        if isinstance(ca, (ast.Tuple, ast.List)) and all(isinstance(e, ast.Constant) for e in ca.elts):
            return tuple(e.value for e in ca.elts)
        if isinstance(ca, ast.Dict) and not ca.keys:
            # one dict per class, shared by all instances (per interpreter = per process)
            memo = self.__dict__.setdefault("_classvals", {})
            if id(ca) not in memo:
                memo[id(ca)] = (ca, {})
                self.__dict__.setdefault("_global_containers", set()).add(id(memo[id(ca)][1]))
            return memo[id(ca)][1]
        # anything else (a tuple of names, a call of a factory, property(...), ...) is evaluated
        # once in the scope of the class body
        memo = self.__dict__.setdefault("_classvals", {})
        if id(ca) in memo:
            return memo[id(ca)][1]
        ci = self.prog.classes[owner]
        fn = ast.FunctionDef(name="<class body>", args=ast.arguments(posonlyargs=[], args=[], kwonlyargs=[],
                                                                     kw_defaults=[], defaults=[]),
                             body=[], decorator_list=[], lineno=getattr(ca, "lineno", 1), col_offset=0)
        fi = FunctionInfo(ci.module, f"{ci.name}.<class body>", fn, cls=None)
        fr2 = Frame(fi, _ClassScope(self, ci), defcls=owner)
        self.stack.append(fr2)
        try:
            v = self.eval(ca, fr2)
        finally:
            self.stack.pop()
        if isinstance(v, (dict, list, set)):
            self.__dict__.setdefault("_global_containers", set()).add(id(v))
        memo[id(ca)] = (ca, v)
        return v

    def e_Subscript(self, n, fr):
        c = self.eval(n.value, fr)
        if isinstance(n.slice, ast.Slice):
            lo = self._const_int(n.slice.lower, fr)
            hi = self._const_int(n.slice.upper, fr)
            if n.slice.step is not None:
                raise self.err(n, "slice step")
            if isinstance(c, TV):
                out = TV(E.slc(c.t, lo, hi), 1 if c.rank else c.rank, c.fresh, c.origin)
                if c.rank == 0 and self.lib == "numpy":
                    self.event("rank-index", n, f"slicing a scalar `{short(n, 40)}`")
                self.check_shape(out, n)
                return out
            if isinstance(c, (list, tuple, str)):
                return c[lo:hi]
            if isinstance(c, FamList):
                raise self.err(n, "slice of a family list")
            raise self.err(n, "slice of unsupported value")
        if isinstance(c, ClassV):
            return c  # Generic[...] subscription
        k = self.eval(n.slice, fr)
        if c is None:
            raise Raised("TypeError", n, fr.fi, "'NoneType' object is not subscriptable")
        if isinstance(c, TV) and isinstance(k, int) and not isinstance(k, bool):
            try:
                _sh = E.shape(c.t, self.world.env if self.world else E.Env())
            except (E.ShapeError, AnalysisError):
                _sh = None
            if _sh is not None and _sh[0] == "fam":
                # one member of a neighbourhood family picked by its position: which one it is
                # depends on the order in which the links were added
                self.event("order-pick", n, f"`{short(n, 60)}` picks member {k} of the {_sh[1]} family by position: "
                                            "the result depends on insertion order", data=_sh[1])
                return TV(E.S(f"pick[{_sh[1]}][{k}]({E.fmt(c.t, 40)})"), 0, True)
        if isinstance(c, ShapeV):
            if not isinstance(k, int) or isinstance(k, bool):
                raise self.err(n, "shape subscripted with a non-constant")
            if not (-c.nd <= k < c.nd):
                raise Raised("IndexError", n, fr.fi, f"tuple index out of range (a shape of {c.nd} dimensions)")
            if c.nd == 2 and k in (1, -1):
                return 1
            return ("dim", c.sh)  # an opaque length: equal lengths compare equal
        if isinstance(c, dict):
            try:
                if k in c:
                    return c[k]
            except TypeError:
                raise self.err(n, "unhashable key")
            raise Raised("KeyError", n, fr.fi, repr(k))
        if isinstance(c, (list, tuple)):
            if isinstance(k, int) and not isinstance(k, bool):
                try:
                    return c[k]
                except IndexError:
                    raise Raised("IndexError", n, fr.fi)
            raise self.err(n, "non-integer index into a sequence")
        if isinstance(c, str) and isinstance(k, int):
            return c[k]
        if isinstance(c, TV):
            if isinstance(k, int) and not isinstance(k, bool):
                if k not in (0, -1):
                    try:
                        known = E.seglen(E.shape(c.t, self.world.env if self.world else E.Env()),
                                         self.world.env if self.world else E.Env())
                    except E.ShapeError:
                        known = None
                    if known is None:
                        raise self.err(n, f"index {k} into a symbolic vector of abstract length "
                                          "(only 0 / -1 are modelled)")
                if c.rank == 0 and self.lib == "numpy":
                    self.event("rank-index", n, f"indexing a scalar `{short(n, 40)}` ({E.fmt(c.t, 60)})")
                out = TV(E.idx(c.t, k), 0, True, c.origin)
                self.check_shape(out, n)
                return out
            if isinstance(k, IndexSet):
                return TV(("idxset", c.t, k.name), 1, True)
            if isinstance(k, (list, tuple)) and all(isinstance(i, int) and not isinstance(i, bool) for i in k):
                # fancy indexing with a list of positions: a fresh copy
                if not k:
                    return TV(("vcat", ()), 1, True)
                out = TV(("vcat", tuple(E.idx(c.t, i) for i in k)), 1, True)
                self.check_shape(out, n)
                return out
            if isinstance(k, TV):
                self.event("symbolic-index", n, f"symbolic value used as an index in `{short(n, 50)}`")
                raise self.err(n, "symbolic index")
            raise self.err(n, f"index of type {type(k).__name__} into a symbolic vector")
        if isinstance(c, ClassV):
            return c  # Generic[...] subscription
        if self.world is not None:
            r = self.world.getitem(self, c, k, n)
            if r is not NotImplemented:
                return r
        raise self.err(n, f"subscript of {type(c).__name__}")

    def e_Starred(self, n, fr):
        raise self.err(n, "starred expression outside a call/display")

    def e_GeneratorExp(self, n, fr):
        return GenV(self._comp(n, fr, lambda f: self.eval(n.elt, f)))

    def e_ListComp(self, n, fr):
        items = self._comp(n, fr, lambda f: self.eval(n.elt, f))
        out = FamList(items) if any(isinstance(x, FamItem) for x in items) else list(items)
        return out

    def e_DictComp(self, n, fr):
        pairs = self._comp(n, fr, lambda f: (self.eval(n.key, f), self.eval(n.value, f)))
        d = {}
        for p in pairs:
            if isinstance(p, FamItem):
                raise self.err(n, "dict comprehension over an abstract collection")
            try:
                d[p[0]] = p[1]
            except TypeError:
                raise Raised("TypeError", n, fr.fi, f"unhashable key {type(p[0]).__name__}")
        if self.world is not None:
            self.world.on_new_container(self, d, n)
        return d

    def _comp(self, n, fr, body):
        sub = Frame(fr.fi, dict(fr.env), fr.defcls, fr.self_obj)
        if "__yield__" in sub.env:
            del sub.env["__yield__"]
        out = []

        def rec(i):
            if i == len(n.generators):
                out.append(body(sub))
                return
            g = n.generators[i]
            it = self._abstract_iter(self.eval(g.iter, sub), g.iter)
            if isinstance(it, Coll) and it.card == "many":
                if len(n.generators) != 1:
                    raise self.err(n, "nested comprehension over an abstract collection")
                self.assign(g.target, it.members[0], sub)
                for c in g.ifs:
                    if not self.truth(self.eval(c, sub), c, sub):
                        raise self.err(n, "filter on the generic member of an abstract collection")
                out.append(FamItem(it.domain, body(sub)))
                return
            for x in self.iterate(it, g.iter, sub):
                if isinstance(x, FamItem):
                    # generic member of an abstract family carried by a list
                    if i != len(n.generators) - 1:
                        raise self.err(n, "nested comprehension over an abstract family")
                    self.assign(g.target, x.term, sub)
                    for c in g.ifs:
                        if not self.truth(self.eval(c, sub), c, sub):
                            raise self.err(n, "filter on the generic member of an abstract family")
                    out.append(FamItem(x.domain, body(sub)))
                    continue
                self.assign(g.target, x, sub)
                if all(self.truth(self.eval(c, sub), c, sub) for c in g.ifs):
                    rec(i + 1)

        rec(0)
        return out

    # ------------------------------------------------------------------ calls
    def e_Call(self, n, fr):
        # super()
        if isinstance(n.func, ast.Name) and n.func.id == "super" and not n.args:
            if fr.self_obj is None or fr.defcls is None:
                raise self.err(n, "super() outside a method")
            return SuperV(fr.self_obj, fr.defcls)
        f = self.eval(n.func, fr)
        args = []
        for a in n.args:
            if isinstance(a, ast.Starred):
                args.extend(self.star_items(self.eval(a.value, fr), a, fr))
            else:
                args.append(self.eval(a, fr))
        kwargs = {}
        for kw in n.keywords:
            if kw.arg is None:
                d = self.eval(kw.value, fr)
                if not isinstance(d, dict):
                    raise self.err(n, "** of a non-dict")
                for k, v in d.items():
                    if k in kwargs:
                        raise Raised("TypeError", n, fr.fi, f"multiple values for keyword {k}")
                    kwargs[k] = v
            else:
                if kw.arg in kwargs:
                    raise Raised("TypeError", n, fr.fi, f"multiple values for keyword {kw.arg}")
                kwargs[kw.arg] = self.eval(kw.value, fr)
        return self.call(f, args, kwargs, n, fr)

    def call(self, f, args, kwargs, n, fr):
        if isinstance(f, FuncV):
            if self.world is not None:
                r = self.world.intercept_call(self, f, args, kwargs, n)
                if r is not NotImplemented:
                    return r
            return self.call_function(f, args, kwargs, n)
        if isinstance(f, Closure):
            return self.call_closure(f, args, kwargs, n)
        if isinstance(f, _Const):
            return f.v
        if isinstance(f, _Identity):
            return args[0]
        if isinstance(f, _MethodCaller):
            m = self.getattr(args[0], f.name, n, fr)
            return self.call(m, list(f.args), dict(f.kwargs), n, fr)
        if isinstance(f, _AsType):
            dt = args[0] if args else kwargs.get("dtype")
            x = f.x
            if isinstance(dt, DTypeV) and isinstance(dt.of, TV) and not dt.of.fresh and "caller" in (dt.of.origin or ""):
                self.event("dtype-cast", n,
                           f"`{short(n, 60)}` casts a computed value to the dtype of caller-supplied data "
                           f"({dt.of.origin or E.fmt(dt.of.t, 40)}): integer arrays truncate the result")
            elif not (isinstance(dt, DTypeV) or dt is float or (isinstance(dt, Builtin) and dt.name == "float")):
                raise self.err(n, f"astype({dt!r}) is not modelled")
            cp = kwargs.get("copy", True)
            return TV(x.t, x.rank, True if cp else x.fresh, x.origin)
        if isinstance(f, _Getter):
            def one(k):
                if f.item:
                    c = args[0]
                    if isinstance(c, (list, tuple, dict, str)):
                        return c[k]
                    raise self.err(n, "itemgetter on an unsupported value")
                cur = args[0]
                for part in str(k).split("."):
                    cur = self.getattr(cur, part, n, fr)
                return cur
            if f.multi:
                return tuple(one(k) for k in f.key)
            return one(f.key)
        if isinstance(f, Builtin):
            return self.call_builtin(f.name, args, kwargs, n, fr)
        if isinstance(f, ExtMod):
            return self.call_ext(f.name, args, kwargs, n, fr)
        if isinstance(f, (BoundDictMethod, BoundListMethod, BoundStrMethod, BoundSetMethod)):
            return f.call(self, args, kwargs, n, fr)
        if isinstance(f, ClassV):
            if self.world is not None:
                r = self.world.construct(self, f, args, kwargs, n)
                if r is not NotImplemented:
                    return r
            if f.fq in self.prog.classes:
                return self.construct_generic(f, args, kwargs, n)
            raise self.err(n, f"construction of {f.fq} is not modelled")
        if isinstance(f, Partial):
            return self.call(f.func, list(f.args) + list(args), {**f.kwargs, **kwargs}, n, fr)
        if self.world is not None:
            r = self.world.call_value(self, f, args, kwargs, n)
            if r is not NotImplemented:
                return r
        if isinstance(f, Obj) and f.cls in self.prog.classes:
            m = self.find_method(f.cls, "__call__")
            if m is not None:
                return self.call_function(FuncV(m, f, defcls=m.cls), list(args), dict(kwargs), n)
        raise self.err(n, f"call of {type(f).__name__}")

    def construct_generic(self, cv: ClassV, args, kwargs, node):
        """instantiate a (helper) class of the repository: run its __init__, or fill the
        fields of a @dataclass in declaration order"""
        ci = self.prog.classes[cv.fq]
        o = Obj(cv.fq, f"<{ci.name}>", kind="helper")
        init = self.prog.lookup_method(cv.fq, "__init__")
        if init is not None:
            self.call_function(FuncV(init, o, defcls=init.cls), list(args), dict(kwargs), node)
            return o
        is_dc = any((dotted_name(d.func if isinstance(d, ast.Call) else d) or "").split(".")[-1] == "dataclass"
                    for d in ci.node.decorator_list)
        fields = [b for b in ci.node.body if isinstance(b, ast.AnnAssign) and isinstance(b.target, ast.Name)]
        if is_dc or (fields and (args or kwargs)):
            names = [b.target.id for b in fields]
            vals = dict(zip(names, args))
            vals.update(kwargs)
            fr0 = Frame(None, {})
            for b in fields:
                if b.target.id not in vals:
                    if b.value is None:
                        raise Raised("TypeError", node, self.stack[-1].fi if self.stack else None,
                                     f"missing field {b.target.id}")
                    vals[b.target.id] = self.eval(b.value, fr0)
            o.attrs.update(vals)
            return o
        if args or kwargs:
            raise Raised("TypeError", node, self.stack[-1].fi if self.stack else None, "object() takes no arguments")
        return o

    def call_closure(self, c: Closure, args, kwargs, node):
        fv = FuncV(c.fi, None)
        self.depth += 1
        if self.depth > 40:
            raise self.err(node, "call depth exceeded")
        try:
            env = dict(c.frame.env)
            env.update(self.bind_args(fv, args, kwargs, node))
            fr = Frame(c.frame.fi, env, defcls=c.frame.defcls, self_obj=c.frame.self_obj)
            self.stack.append(fr)
            is_gen = not isinstance(c.fi.node, ast.Lambda) and _has_yield(c.fi.node)
            if is_gen:
                fr.env["__yield__"] = []
            try:
                if isinstance(c.fi.node, ast.Lambda):
                    return self.eval(c.fi.node.body, fr)
                self.exec_block(c.fi.node.body, fr)
            except Return as r:
                if not is_gen:
                    return r.v
            finally:
                self.stack.pop()
            if is_gen:
                return GenV(list(fr.env["__yield__"]))
            return None
        finally:
            self.depth -= 1

    def e_Lambda(self, n, fr):
        from .front import FunctionInfo
        fi = FunctionInfo(fr.fi.module if fr.fi else "", "<lambda>", n, cls=None)
        return Closure(fi, fr)

    def e_Yield(self, n, fr):
        if "__yield__" not in fr.env:
            raise self.err(n, "yield outside a generator function")
        fr.env["__yield__"].append(self.eval(n.value, fr) if n.value is not None else None)
        return None

    def e_YieldFrom(self, n, fr):
        if "__yield__" not in fr.env:
            raise self.err(n, "yield outside a generator function")
        fr.env["__yield__"].extend(self.iterate(self.eval(n.value, fr), n, fr))
        return None

    def e_NamedExpr(self, n, fr):
        v = self.eval(n.value, fr)
        self.assign(n.target, v, fr)
        return v

    # -------------------------------------------------------------- builtins
    def call_builtin(self, name, args, kwargs, n, fr):
        import builtins as _b
        if isinstance(getattr(_b, name, None), type) and issubclass(getattr(_b, name), BaseException):
            return Obj(f"builtins:{name}", f"<{name}>", {"args": tuple(args)}, kind="exception")
        if name == "len":
            v = args[0]
            if isinstance(v, Coll):
                return v.card if v.card != "many" else AbsInt("card", link=None)
            if isinstance(v, (list, tuple, dict, str, frozenset)):
                if isinstance(v, FamList) and any(isinstance(x, FamItem) for x in v):
                    return AbsInt("card")
                return len(v)
            if isinstance(v, IndexSet):
                return AbsInt(f"len({v.name})", link=v.link)
            if isinstance(v, ShapeV):
                return v.nd
            if isinstance(v, (GenV, IterV)):
                raise Raised("TypeError", n, fr.fi, "object of type 'generator' has no len()")
            if isinstance(v, TV):
                self.event("symbolic-len", n, "len() of a symbolic value")
                raise self.err(n, "len of a symbolic value")
            if self.world is not None and hasattr(self.world, "length"):
                r = self.world.length(self, v, n)
                if r is not None:
                    return r
            raise self.err(n, f"len of {type(v).__name__}")
        if name == "any" or name == "all":
            v = args[0]
            if isinstance(v, Coll):
                # members are non-empty tuples: truthy
                return (v.card != 0) if name == "any" else True
            if isinstance(v, LazyV):
                # short-circuit: stop asking for items as soon as the answer is known
                while True:
                    ok, x = v.pull(self, n, fr)
                    if not ok:
                        return name == "all"
                    t = self.truth(x, n, fr)
                    if t and name == "any":
                        return True
                    if not t and name == "all":
                        return False
            items = self.iterate(v, n, fr)
            syms = [x for x in items if isinstance(x, TV)]
            if len(syms) > 1 and all(self._is_scalar(x) for x in syms):
                # several symbolic operands: one decision on "all of them are non-zero" (their
                # product) / "one of them is non-zero" (the sum of their squares), not one each
                rest = [self.truth(x, n, fr) for x in items if not isinstance(x, TV)]
                if name == "all" and not all(rest):
                    return False
                if name == "any" and any(rest):
                    return True
                acc = None
                for x in syms:
                    t = x.t if name == "all" else E.mul(x.t, x.t)
                    acc = t if acc is None else (E.mul(acc, t) if name == "all" else E.add(acc, t))
                return self.truth(TV(("cmp", "ne", acc, E.ZERO), 0), n, fr)
            rs = [self.truth(x, n, fr) for x in items]
            return any(rs) if name == "any" else all(rs)
        if name == "isinstance":
            o, c = args
            classes = c if isinstance(c, tuple) else (c,)
            for k in classes:
                if isinstance(k, ClassV):
                    if isinstance(o, Obj) and self.prog.is_subclass(o.cls, k.fq):
                        return True
                elif isinstance(k, Builtin):
                    py = {"str": str, "int": int, "float": float, "dict": dict, "list": list, "tuple": tuple, "bool": bool}.get(k.name)
                    if py is not None and isinstance(o, py):
                        return True
                elif isinstance(k, ExtMod) and k.name.split(".")[-1] in ("Hashable", "Iterable", "Sized", "Mapping", "Sequence") \
                        and k.name.split(".")[0] in ("collections", "typing"):
                    abc = k.name.split(".")[-1]
                    if abc == "Hashable":
                        if isinstance(o, (dict, list, set, TV)) and not (isinstance(o, TV) and self.lib == "casadi"):
                            pass  # dicts, lists, sets and NumPy arrays are not hashable
                        else:
                            return True
                    elif abc == "Iterable" and isinstance(o, (list, tuple, dict, set, frozenset, str, IterV, GenV, LazyV, Coll)):
                        return True
                    elif abc == "Sized" and isinstance(o, (list, tuple, dict, set, frozenset, str, Coll)):
                        return True
                    elif abc == "Mapping" and isinstance(o, dict):
                        return True
                    elif abc == "Sequence" and isinstance(o, (list, tuple, str)):
                        return True
                elif isinstance(k, ExtMod):
                    # isinstance(x, cs.SX) etc: handled by the world
                    if self.world is not None:
                        r = self.world.isinstance_ext(self, o, k, n)
                        if r:
                            return True
                else:
                    raise self.err(n, "isinstance against an unsupported class object")
            return False
        if name == "iter":
            v = args[0]
            if isinstance(v, Coll):
                if v.card == "many":
                    self.event("order-pick", n,
                               f"a single member is picked from the {v.domain} collection, which has "
                               "several members: the result depends on insertion order", data=v.domain)
                    return IterV(list(v.members))
                if isinstance(v.card, int) and v.card > 1:
                    self.event("order-pick", n,
                               f"a single member is picked from the {v.domain} collection, which has "
                               f"{v.card} members: the result depends on insertion order", data=v.domain)
                return IterV(list(v.members))
            if isinstance(v, (LazyV, IterV, GenV)):
                return v  # an iterator is its own iterator
            return IterV(self.iterate(v, n, fr))
        if name == "next":
            it = args[0]
            if isinstance(it, IterV):
                if it.pos < len(it.items):
                    it.pos += 1
                    return it.items[it.pos - 1]
                if len(args) > 1:
                    return args[1]
                self.event("stop-iteration", n, "next() on an exhausted iterator")
                raise Raised("StopIteration", n, fr.fi)
            if isinstance(it, GenV):
                if it.items:
                    return it.items.pop(0)
                if len(args) > 1:
                    return args[1]
                raise Raised("StopIteration", n, fr.fi)
            if isinstance(it, LazyV):
                ok, x = it.pull(self, n, fr)
                if ok:
                    return x
                if len(args) > 1:
                    return args[1]
                self.event("stop-iteration", n, "next() on an exhausted iterator")
                raise Raised("StopIteration", n, fr.fi)
            raise self.err(n, "next() of a non-iterator")
        if name == "hasattr":
            o, a = args
            if isinstance(o, TV):
                if self.lib == "numpy" and a in ("dtype", "astype", "copy", "size", "ndim"):
                    return True
                return a == "shape"
            if isinstance(o, Obj):
                try:
                    self.getattr(o, a, n, fr)
                    return True
                except Raised:
                    return False
            return False
        if name == "setattr":
            o, a, v = args
            if isinstance(o, Obj) and isinstance(a, str):
                if self.world is not None:
                    self.world.on_setattr(self, o, a, v, n)
                o.attrs[a] = v
                return None
            raise self.err(n, "setattr on an unsupported value")
        if name == "delattr":
            o, a = args
            if isinstance(o, Obj) and isinstance(a, str):
                if a not in o.attrs:
                    raise Raised("AttributeError", n, fr.fi, a)
                del o.attrs[a]
                return None
            raise self.err(n, "delattr on an unsupported value")
        if name == "property":
            fget = args[0] if args else kwargs.get("fget")
            return PropV(fget, False)
        if name == "object":
            return Obj("builtins:object", "<object>", kind="other")
        if name == "getattr":
            o, a = args[0], args[1]
            try:
                return self.getattr(o, a, n, fr)
            except Raised:
                if len(args) > 2:
                    return args[2]
                raise
        if name in ("list", "tuple"):
            if not args:
                return [] if name == "list" else ()
            items = self.iterate(args[0], n, fr)
            return list(items) if name == "list" else tuple(items)
        if name == "dict":
            d = dict(kwargs)
            if args:
                src = args[0]
                if isinstance(src, dict):
                    d = {**src, **d}
                else:
                    for k, v in self.iterate(src, n, fr):
                        d[k] = v
            if self.world is not None:
                self.world.on_new_container(self, d, n)
            return d
        if name == "zip":
            if args and all(isinstance(a, FamItem) for a in args):
                # zip(*[(a(mu), b(mu)) for mu in family]) -> (family of a, family of b)
                if len(args) == 1 and isinstance(args[0].term, (tuple, list)):
                    return [FamList([FamItem(args[0].domain, comp)]) for comp in args[0].term]
                raise self.err(n, "zip over several abstract family items")
            its = [self.iterate(a, n, fr) for a in args]
            if len(its) == 1 and len(its[0]) == 1 and isinstance(its[0][0], FamItem) and isinstance(its[0][0].term, (tuple, list)):
                # zip(*[(a(mu), b(mu)) for mu in family]) -> (family of a, family of b)
                fi_ = its[0][0]
                return [FamList([FamItem(fi_.domain, comp)]) for comp in fi_.term]
            if any(isinstance(x, FamItem) for seq in its for x in seq):
                if all(len(seq) == 1 and isinstance(seq[0], FamItem) for seq in its) and len({seq[0].domain for seq in its}) == 1:
                    return FamList([FamItem(its[0][0].domain, tuple(seq[0].term for seq in its))])
                raise self.err(n, "zip mixing abstract families and concrete items")
            return list(zip(*its))
        if name == "map":
            if len(args) == 2:
                src = self._abstract_iter(args[1], n)
                if isinstance(src, (list, tuple, dict, KeysV, IterV, GenV, LazyV)) and not isinstance(src, FamList) \
                        and not any(isinstance(x, FamItem) for x in (src if isinstance(src, (list, tuple)) else ())):
                    base = src if isinstance(src, (IterV, GenV, LazyV)) else IterV(self.iterate(src, n, fr))
                    return LazyV("map", args[0], base, n)
                if isinstance(src, Coll) and src.card == "many":
                    return FamList([FamItem(src.domain, self.call(args[0], [src.members[0]], {}, n, fr))])
                items = self.iterate(src, n, fr)
                out = []
                fam = False
                for x in items:
                    if isinstance(x, FamItem):
                        fam = True
                        out.append(FamItem(x.domain, self.call(args[0], [x.term], {}, n, fr)))
                    else:
                        out.append(self.call(args[0], [x], {}, n, fr))
                return FamList(out) if fam else out
            its = [self.iterate(a, n, fr) for a in args[1:]]
            return [self.call(args[0], list(xs), {}, n, fr) for xs in zip(*its)]
        if name == "filter":
            if isinstance(args[1], (list, tuple, dict, KeysV, IterV, GenV, LazyV)) and not isinstance(args[1], FamList) \
                    and not any(isinstance(x, FamItem) for x in (args[1] if isinstance(args[1], (list, tuple)) else ())):
                base = args[1] if isinstance(args[1], (IterV, GenV, LazyV)) else IterV(self.iterate(args[1], n, fr))
                return LazyV("filter", args[0], base, n)
            items = self.iterate(args[1], n, fr)
            if args[0] is None:
                return [x for x in items if self.truth(x, n, fr)]
            return [x for x in items if self.truth(self.call(args[0], [x], {}, n, fr), n, fr)]
        if name == "callable":
            return isinstance(args[0], (FuncV, Closure, Builtin, ClassV, Partial))
        if name == "enumerate":
            return list(enumerate(self.iterate(args[0], n, fr)))
        if name == "range":
            if all(isinstance(a, int) for a in args):
                return list(range(*args))
            raise self.err(n, "range over a non-constant")
        if name in ("float", "int", "bool", "abs", "round"):
            v = args[0] if args else 0
            if isinstance(v, TV) and name == "float" and self.lib == "numpy" and self._is_scalar(v):
                return TV(v.t, 0, True, v.origin)  # a NumPy value is a number: float() keeps it
            if isinstance(v, TV):
                self.event("symbolic-truth", n, f"python {name}() applied to a symbolic quantity ({E.fmt(v.t, 60)})")
                raise self.err(n, f"{name}() of a symbolic value")
            return {"float": float, "int": int, "bool": bool, "abs": abs, "round": round}[name](v)
        if name in ("max", "min"):
            if any(isinstance(a, TV) for a in args):
                self.event("symbolic-truth", n, f"python builtin {name}() compares symbolic quantities")
                raise self.err(n, f"builtin {name}() on symbolic values")
            return max(*args) if name == "max" else min(*args)
        if name == "sum":
            items = self.iterate(args[0], n, fr)
            acc = args[1] if len(args) > 1 else 0
            for x in items:
                if isinstance(x, FamItem):
                    raise self.err(n, "python sum over an abstract family")
                acc = self.binop(ast.Add(), acc, x, n)
            return acc
        if name == "sorted" or name == "reversed":
            self.event("reorder", n, f"{name}() applied in analysed code")
            items = self.iterate(args[0], n, fr)
            if all(isinstance(x, (int, float, str)) for x in items) and not kwargs:
                return sorted(items) if name == "sorted" else list(reversed(items))
            if name == "reversed" and not kwargs:
                return list(reversed(items))
            if name == "sorted" and set(kwargs) <= {"key", "reverse"}:
                key = kwargs.get("key")
                keys = [self.call(key, [x], {}, n, fr) for x in items] if key is not None else list(items)

                def plain(k):
                    return isinstance(k, (int, float)) or (isinstance(k, str) and k != "<sym>") or \
                        (isinstance(k, tuple) and all(plain(y) for y in k))
                if all(plain(k) for k in keys):
                    try:
                        order = sorted(range(len(items)), key=lambda i: keys[i], reverse=bool(kwargs.get("reverse")))
                    except TypeError:
                        raise Raised("TypeError", n, fr.fi, "unorderable sort keys")
                    return [items[i] for i in order]
            raise self.err(n, f"{name}() over abstract values")
        if name == "type":
            o = args[0]
            if isinstance(o, Obj):
                return ClassV(o.cls)
            return Builtin(type(o).__name__)
        if name == "str":
            v = args[0]
            if isinstance(v, Obj):
                return str(v.attrs.get("name", v.ident))
            if isinstance(v, TV):
                self.event("symbolic-format", n, "str() of a symbolic value")
                if self.world is not None and hasattr(self.world, "str_of_symbol"):
                    r = self.world.str_of_symbol(self, v, n)
                    if r is not None:
                        return r
                return "<sym>"
            return str(v)
        if name == "id":
            return id(args[0])
        if name == "print":
            return None
        if name == "set":
            items = self.iterate(args[0], n, fr) if args else []
            self._value_set(items, n)
            return set(items)
        if name == "frozenset":
            return frozenset(self.iterate(args[0], n, fr)) if args else frozenset()
        raise self.err(n, f"builtin {name} is not modelled")

    # ---------------------------------------------------- library alias table
    def call_ext(self, name, args, kwargs, n, fr):
        parts = name.split(".")
        lib, fn_ = parts[0], parts[-1]
        if lib == "numpy":
            canon = NUMPY_ALIAS.get(fn_)
        elif lib == "casadi":
            canon = CASADI_ALIAS.get(fn_)
        else:
            canon = None
        if lib == "casadi" and fn_ in ("hcat", "horzcat"):
            items = self.iterate(args[0], n, fr) if fn_ == "hcat" else list(args)
            env_ = self.world.env if self.world else E.Env()
            for x in items:
                if isinstance(x, TV) and E.shape(x.t, env_) != E.SC:
                    raise Raised("RuntimeError", n, fr.fi, "horzcat: dimension mismatch (a column of several rows "
                                                           "next to a scalar)")
            return self.vcat(items, n, fr)  # a row of scalars: accepted wherever the column is
        if lib == "numpy" and fn_ == "size" and len(args) == 1 and not kwargs:
            v = args[0]
            if isinstance(v, TV):
                env = self.world.env if self.world else E.Env()
                try:
                    sh = E.shape(v.t, env)
                except E.ShapeError as e:
                    raise Raised("ValueError", n, fr.fi, str(e))
                if sh == E.SC:
                    return 1
                if sh[0] == "tuple":
                    return sh[1]
                if sh[0] == "fam":
                    return AbsInt("card")
                if sh[0] == "seg":
                    ln = E.seglen(sh, env)
                    if isinstance(ln, int):
                        return ln
                    return AbsInt("segments", link=sh[1])
                raise self.err(n, f"np.size of a value of shape {sh}")
            if isinstance(v, (int, float)):
                return 1
            if isinstance(v, (list, tuple)) and all(
                    isinstance(x, (int, float)) or (isinstance(x, TV) and self._is_scalar(x)) for x in v):
                return self.call_builtin("len", [v], {}, n, fr)
            if isinstance(v, (list, tuple, Coll)):
                items = v if not isinstance(v, Coll) else None
                if items is not None and any(isinstance(x, FamItem) for x in items):
                    return AbsInt("card")
            raise self.err(n, "np.size of an unsupported value")
        if canon is None:
            if self.world is not None:
                r = self.world.call_ext(self, name, args, kwargs, n)
                if r is not NotImplemented:
                    return r
            r = self.call_stdlib(name, args, kwargs, n, fr)
            if r is not NotImplemented:
                return r
            raise self.err(n, f"library call {name} is not in the alias table")
        out_target = None
        if kwargs and "dtype" in kwargs and lib == "numpy":
            dt = kwargs["dtype"]
            floaty = dt is None or dt is float or (isinstance(dt, Builtin) and dt.name == "float") or \
                (isinstance(dt, ExtMod) and dt.name.split(".")[-1] in ("float64", "double", "float_", "floating")) or \
                (isinstance(dt, str) and dt in ("float", "float64", "f8", "d"))
            if not floaty:
                raise self.err(n, f"dtype {dt!r} of {name} is not modelled (only float64)")
            kwargs = {k: v for k, v in kwargs.items() if k != "dtype"}  # values are reals already
        if kwargs and "copy" in kwargs and lib == "numpy" and canon in ("ident", "copy"):
            cp = kwargs["copy"]
            kwargs = {k: v for k, v in kwargs.items() if k != "copy"}
            if cp is True:
                canon = "copy"
            elif cp in (False, None) and fn_ in ("array", "asarray"):
                canon = "ident"
        if kwargs:
            if set(kwargs) == {"out"} and lib == "numpy":
                out_target = kwargs["out"]
                kwargs = {}
            elif set(kwargs) <= {"axis"} and canon == "sum0":
                args = [args[0], kwargs["axis"]]
                kwargs = {}
            elif set(kwargs) <= {"axis"} and canon == "hstack" and kwargs.get("axis") in (0, None):
                kwargs = {}
            else:
                raise self.err(n, f"keyword arguments {sorted(kwargs)} to {name} are not modelled")
        if out_target is not None:
            if isinstance(out_target, TV):
                if not out_target.fresh:
                    self.event("mutates-shared", n,
                               f"`{short(n, 60)}` writes its result into `out=`, which may alias data "
                               f"owned by the caller or an element state ({out_target.origin or E.fmt(out_target.t, 60)})")
            elif out_target is not None:
                raise self.err(n, "out= of an unsupported value")
        if canon == "ident":
            return args[0]
        if canon == "squeeze":
            x = self.to_tv(args[0], n)
            scalar = self._is_scalar(x)
            return TV(x.t, 0 if scalar else x.rank, x.fresh, x.origin)
        if canon == "copy":
            x = self.to_tv(args[0], n)
            return TV(x.t, x.rank, True, "")
        if canon == "atleast_1d":
            x = self.to_tv(args[0], n)
            return TV(x.t, 1, x.fresh, x.origin)
        if canon in ("zeros_like", "ones_like"):
            x = self.to_tv(args[0], n)
            c = E.ZERO if canon == "zeros_like" else E.ONE
            return TV(E.add(E.mul(E.ZERO, x.t), c), x.rank or 0, True)
        if canon == "full_like":
            x = self.to_tv(args[0], n)
            f = self.to_tv(args[1], n)
            return TV(E.add(E.mul(E.ZERO, x.t), f.t), x.rank or 0, True)
        if canon == "clip":
            x, lo, hi = (self.to_tv(a, n) for a in args[:3])
            return TV(("max", lo.t, ("min", x.t, hi.t)), x.rank or 0, True)
        if canon == "sqrt":
            x = self.to_tv(args[0], n)
            return TV(E.pow_(x.t, E.C(Fraction(1, 2))), x.rank or 0)
        if canon in ("add", "sub", "mul", "div"):
            op = {"add": ast.Add(), "sub": ast.Sub(), "mul": ast.Mult(), "div": ast.Div()}[canon]
            return self.binop(op, args[0], args[1], n)
        if canon == "neg":
            x = self.to_tv(args[0], n)
            return TV(E.neg(x.t), x.rank or 0)
        if canon == "sum0":
            if len(args) != 2 or args[1] != 0:
                raise self.err(n, "np.sum is modelled only as np.sum(x, 0)")
            return self._sum(args[0], n)
        if canon == "sum":
            if len(args) != 1:
                raise self.err(n, "cs.sum1 takes one argument")
            return self._sum(args[0], n)
        if canon == "square":
            x = self.to_tv(args[0], n)
            return TV(E.mul(x.t, x.t), x.rank or 0)
        if canon == "pow":
            return self.binop(ast.Pow(), args[0], args[1], n)
        if canon in ("exp", "log"):
            x = self.to_tv(args[0], n)
            return TV(E.fn(canon, x.t), x.rank or 0)
        if canon in ("min", "max"):
            a, b = self.to_tv(args[0], n), self.to_tv(args[1], n)
            out = TV((canon, a.t, b.t), max(a.rank or 0, b.rank or 0))
            self.check_shape(out, n)
            return out
        if canon == "ite":
            c, a, b = (self.to_tv(x, n) for x in args)
            return TV(("ite", c.t, a.t, b.t), max(a.rank or 0, b.rank or 0))
        if canon == "hstack" or canon == "vcat_list":
            return self.vcat(args[0], n, fr)
        if canon == "vcat_args":
            return self.vcat(args, n, fr)
        raise self.err(n, f"alias {canon} not handled")

    def call_stdlib(self, name, args, kwargs, n, fr):
        import math as _math

        if name == "functools.partial":
            return Partial(args[0], tuple(args[1:]), dict(kwargs))
        if name == "functools.cached_property":
            return PropV(args[0], True, getattr(getattr(args[0], "fi", None), "name", None))
        if name == "functools.wraps":
            return _Identity()
        if name == "functools.reduce":
            items = self.iterate(args[1], n, fr)
            acc = args[2] if len(args) > 2 else items.pop(0)
            for x in items:
                acc = self.call(args[0], [acc, x], {}, n, fr)
            return acc
        if name in ("contextlib.suppress", "suppress"):
            names = []
            for a in args:
                names.append(a.name if isinstance(a, Builtin) else a.fq.split(":")[-1] if isinstance(a, ClassV) else str(a))
            return SuppressV(tuple(names))
        if name.startswith("operator."):
            op = {"add": ast.Add(), "sub": ast.Sub(), "mul": ast.Mult(), "truediv": ast.Div(), "pow": ast.Pow(),
                  "iadd": ast.Add(), "isub": ast.Sub(), "imul": ast.Mult(), "itruediv": ast.Div()}.get(
                name.split(".")[1])
            if op is not None and name.split(".")[1].startswith("i") and isinstance(args[0], TV) \
                    and self.lib == "numpy" and not args[0].fresh and args[0].rank != 0:
                # operator.iadd(x, y) is `x += y`: in place on NumPy arrays
                self.event("mutates-shared", n, f"`{short(n, 60)}` updates its first operand in place, which may "
                                                f"alias data owned by the caller or an element state")
            if name in ("operator.is_", "operator.is_not"):
                same = args[0] is args[1]
                return same if name.endswith("is_") else not same
            if name == "operator.not_":
                return not self.truth(args[0], n, fr)
            if name == "operator.truth":
                return self.truth(args[0], n, fr)
            if name == "operator.contains":
                return self.contains(args[0], args[1], n, fr)
            if name == "operator.getitem":
                c, k = args
                if isinstance(c, (list, tuple, dict, str)):
                    try:
                        return c[k]
                    except (KeyError, IndexError) as ex:
                        raise Raised(type(ex).__name__, n, fr.fi, repr(k))
            if name == "operator.methodcaller":
                mname, margs = args[0], list(args[1:])
                return Closure(None, None, None) if False else _MethodCaller(mname, margs, dict(kwargs))
            if op is not None:
                return self.binop(op, args[0], args[1], n)
            if name == "operator.neg":
                x = self.to_tv(args[0], n)
                return TV(E.neg(x.t), x.rank)
            if name in ("operator.itemgetter", "operator.attrgetter"):
                key = args[0] if len(args) == 1 else tuple(args)
                return _Getter(key, name.endswith("itemgetter"), multi=len(args) > 1)
        if name == "itertools.chain":
            out = []
            for a in args:
                out.extend(self.star_items(a, n, fr))
            return IterV(out) if not any(isinstance(x, FamItem) for x in out) else out  # (a one-shot iterator)
        if name == "itertools.chain.from_iterable":
            out = []
            for a in self.iterate(args[0], n, fr):
                out.extend(self.star_items(a, n, fr))
            return IterV(out) if not any(isinstance(x, FamItem) for x in out) else out
        if name in ("weakref.WeakKeyDictionary", "weakref.WeakValueDictionary", "collections.OrderedDict") and not args:
            d = {}
            if self.world is not None:
                self.world.on_new_container(self, d, n)
            return d
        if name == "itertools.product":
            import itertools as _it

            return list(_it.product(*[self.star_items(a, n, fr) for a in args]))
        if name == "itertools.filterfalse":
            pred = args[0]
            out = []
            for x in self.iterate(args[1], n, fr):
                keep = self.truth(x, n, fr) if pred is None else self.truth(self.call(pred, [x], {}, n, fr), n, fr)
                if not keep:
                    out.append(x)
            return IterV(out)
        if name == "itertools.cycle":
            items = self.iterate(args[0], n, fr)
            return IterV(items * 64)
        if name == "itertools.count":
            start = args[0] if args else 0
            return IterV(list(range(start, start + 256)))
        if name == "itertools.repeat" and len(args) == 2 and isinstance(args[1], int):
            return [args[0]] * args[1]
        if name == "itertools.islice" and all(isinstance(a, int) or a is None for a in args[1:]):
            import itertools as _it

            return list(_it.islice(self.iterate(args[0], n, fr), *args[1:]))
        if name.startswith("math.") and all(isinstance(a, (int, float)) and not isinstance(a, bool) for a in args):
            f = getattr(_math, name.split(".")[1], None)
            if callable(f):
                return f(*args)
        if name in ("math.inf",):
            return float("inf")
        if name in ("typing.cast",):
            return args[1]
        if name == "copy.copy" or name == "copy.deepcopy":
            v = args[0]
            if isinstance(v, dict):
                c = dict(v)
                if self.world is not None:
                    self.world.on_new_container(self, c, n)
                return c
            if isinstance(v, list):
                return list(v)
            if isinstance(v, TV):
                return TV(v.t, v.rank, True, "")
        if name in ("warnings.warn",):
            return None
        return NotImplemented

    def _sum(self, v, n):
        x = self.to_tv(v, n)
        if x.rank == 0 and self.lib == "numpy":
            # np.sum(scalar, 0) raises AxisError
            self.event("rank-reduce", n, f"reduction over axis 0 of a scalar ({E.fmt(x.t, 60)})")
        return TV(("sum", x.t), 0)

    def vcat(self, items, n, fr):
        items = self.star_items(items, n, fr) if not isinstance(items, (list, tuple)) else list(items)
        terms = []
        fam = None
        for it in items:
            if isinstance(it, FamItem):
                fam = it
            else:
                terms.append(self.to_tv(it, n).t)
        if fam is not None:
            if terms or len([i for i in items if isinstance(i, FamItem)]) != 1:
                raise self.err(n, "concatenation mixing family and plain items")
            return TV(("fam", fam.domain, self.to_tv(fam.term, n).t), 1)
        if not terms:
            return TV(("vcat", ()), 1)
        out = TV(("vcat", tuple(terms)), 1)
        self.check_shape(out, n)
        return out


def _is_classmethod(m) -> bool:
    return any((dotted_name(d) or "") == "classmethod" for d in m.node.decorator_list)


def _has_yield(fn) -> bool:
    from .front import walk_no_nested

    return any(isinstance(x, (ast.Yield, ast.YieldFrom)) for x in walk_no_nested(fn))


class IndexSet:
    """abstract set of segment indices (the `vsl` list of a LinkWithVsl)"""

    def __init__(self, name, link):
        self.name = name
        self.link = link


@dataclass(eq=False)
class BoundDictMethod:
    d: dict
    name: str

    def call(self, it: Interp, args, kwargs, n, fr):
        d = self.d
        if self.name == "get":
            k = args[0]
            return d.get(k, args[1] if len(args) > 1 else None)
        if self.name == "items":
            return list(d.items())
        if self.name == "keys":
            return KeysV(d.keys())
        if self.name == "values":
            return list(d.values())
        if self.name == "copy":
            c = dict(d)
            if it.world is not None:
                it.world.on_new_container(it, c, n)
            return c
        it.check_owned_container(d, n, fr, self.name)
        if self.name == "update":
            if args:
                d.update(args[0])
            d.update(kwargs)
            return None
        if self.name == "pop":
            if args[0] in d:
                return d.pop(args[0])
            if len(args) > 1:
                return args[1]
            raise Raised("KeyError", n, fr.fi, repr(args[0]))
        if self.name == "setdefault":
            return d.setdefault(args[0], args[1] if len(args) > 1 else None)
        if self.name == "clear":
            d.clear()
            return None
        raise it.err(n, f"dict.{self.name}")


@dataclass(eq=False)
class BoundListMethod:
    l: list
    name: str

    def call(self, it: Interp, args, kwargs, n, fr):
        if self.name in ("append", "extend", "insert", "pop", "clear", "remove", "sort", "reverse"):
            it.global_state_store(self.l, n)
        if self.name == "append":
            self.l.append(args[0])
            return None
        if self.name == "extend":
            self.l.extend(it.iterate(args[0], n, fr))
            return None
        if self.name == "insert":
            self.l.insert(args[0], args[1])
            return None
        if self.name == "pop":
            return self.l.pop(*args)
        if self.name in ("index", "count", "copy", "reverse", "clear", "remove"):
            try:
                return getattr(self.l, self.name)(*args)
            except ValueError:
                raise Raised("ValueError", n, fr.fi, "not in list")
        if self.name == "sort":
            it.event("reorder", n, "list.sort() applied in analysed code")
            if all(isinstance(x, (int, float, str)) for x in self.l) and not kwargs:
                self.l.sort()
                return None
            raise it.err(n, "list.sort over abstract values")
        raise it.err(n, f"list.{self.name}")


@dataclass(eq=False)
class BoundSetMethod:
    s: Any
    name: str

    def call(self, it: Interp, args, kwargs, n, fr):
        if self.name in ("add", "discard", "remove", "update", "clear", "pop") and isinstance(self.s, frozenset):
            raise Raised("AttributeError", n, fr.fi, f"frozenset has no {self.name}")
        if self.name in ("add", "discard", "remove", "update", "clear", "pop"):
            it.global_state_store(self.s, n)
        if self.name == "update":
            for a in args:
                self.s.update(it.iterate(a, n, fr))
            return None
        if self.name in ("union", "intersection", "difference", "issubset", "issuperset"):
            other = [set(it.iterate(a, n, fr)) for a in args]
            return getattr(self.s, self.name)(*other)
        try:
            return getattr(self.s, self.name)(*args)
        except KeyError:
            raise Raised("KeyError", n, fr.fi, repr(args[:1]))


@dataclass(eq=False)
class BoundStrMethod:
    s: str
    name: str

    def call(self, it: Interp, args, kwargs, n, fr):
        if self.name == "join":
            return self.s.join(str(x) for x in it.iterate(args[0], n, fr))
        if self.name == "format":
            return self.s
        return getattr(self.s, self.name)(*args)


PY_BUILTINS = {
    "len", "any", "all", "isinstance", "iter", "next", "hasattr", "getattr", "list",
    "tuple", "dict", "zip", "enumerate", "range", "float", "int", "bool", "abs", "round",
    "max", "min", "sum", "sorted", "reversed", "type", "str", "id", "print", "set",
    "frozenset", "super", "map", "filter", "callable", "setattr", "delattr", "property", "object",
}
