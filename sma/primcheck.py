"""EXPR at the level of single engine primitives: interpret each primitive of each
engine in every configuration of optional arguments / `type` literals and compare
its normal form with the P-table and with the sibling engine."""
from __future__ import annotations

import itertools
from dataclasses import dataclass, field
from typing import Optional

from . import expr as E
from . import model as M
from .front import AnalysisError, Program
from .interp import FuncV, IndexSet, Interp, Obj, Raised, TV
from .spec import ptable as P

ENGINE_MOD = {"numpy": "sym_metanet.engines.numpy", "casadi": "sym_metanet.engines.casadi"}
GROUP_CLS = {"nodes": "NodesEngine", "links": "LinksEngine", "origins": "OriginsEngine",
             "destinations": "DestinationsEngine"}

SEG = {"rho", "v", "q", "q_up", "v_up", "rho_down", "Veq"}  # per-segment vectors of link K
FAM = {"q_lasts", "v_lasts", "betas", "rho_firsts"}  # per-link families


class PrimWorld:
    """world for interpreting a primitive in isolation"""

    def __init__(self, n1):
        self.env = E.Env(n1 if isinstance(n1, dict) else {"K": n1})
        self.trace: list = []
        self.decisions: list = []
        self.assumptions: list = []
        self.owned: set = set()
        self._keep: list = []

    def iterate(self, it, v, node):
        return None

    def on_setattr(self, it, o, attr, v, node):
        it.event("extra-attr-store", node, f"attribute {attr} stored")

    def on_module_store(self, it, modname, attr, v, node):
        it.event("selection-store", node, f"module attribute {modname}.{attr} stored")
        return None

    def module_attr(self, it, modname, attr, node):
        return NotImplemented

    def on_new_container(self, it, d, node):
        self.owned.add(id(d))
        self._keep.append(d)

    def on_container_mutation(self, it, c, node, how):
        if id(c) not in self.owned:
            it.event("mutates-caller-container", node, "mutates a caller container")

    def decide(self, it, v, node):
        it.event("symbolic-truth", node, f"python truth value of symbolic `{E.fmt(v.t, 60)}`", data=v.t)
        for t, c, _ in self.assumptions:
            if t == v.t:
                return c  # the same condition was decided before on this path
        i = len(self.trace)
        c = self.decisions[i] if i < len(self.decisions) else True
        self.trace.append(c)
        self.assumptions.append((v.t, c, ""))
        return c

    def contains(self, *a):
        return None

    def getitem(self, *a):
        return NotImplemented

    def getattr(self, *a):
        return NotImplemented

    def call_value(self, *a):
        return NotImplemented

    def construct(self, *a):
        return NotImplemented

    def isinstance_ext(self, it, o, k, node):
        if k.name in ("numpy.ndarray",):
            return isinstance(o, TV) and o.rank == 1
        return False

    def call_ext(self, *a):
        return NotImplemented

    def intercept_call(self, *a):
        return NotImplemented


@dataclass
class PrimRun:
    impl: str
    prim: str
    config: str
    n1: bool
    term: Optional[tuple]
    rank: Optional[int]
    fresh: Optional[bool]
    events: list
    raised: Optional[str]
    args: dict
    where: str
    paths: int = 1
    alt_terms: list = field(default_factory=list)  # terms of the other python-level paths


def prim_env(prim: str, n1: bool) -> dict:
    """segment counts: the speed-limited primitive is analysed on N = 4 with limited
    segments 1 and 3 (or N = 1 with segment 0); everything else on abstract N >= 2 / N = 1"""
    if prim == "links.controlled_Veq":
        return {"K": 1, "K.vsl": 1} if n1 else {"K": 4, "K.vsl": 2}
    return {"K": n1}


def arg_terms(prim: str, present: set, typ: Optional[str], scalar_rank: int = 0, vsl_positions=(1, 3)):
    """symbolic arguments (TV) and the same as plain terms for the P-table"""
    tvs, terms = {}, {}
    group = prim.split(".")[0]
    for p in P.PRIMS[prim]:
        if p == "type":
            if typ is not None:
                tvs[p] = typ
                terms[p] = typ
            continue
        if p in P.OPTIONAL.get(prim, []) and p not in present:
            tvs[p] = None
            terms[p] = None
            continue
        if p == "vsl":
            tvs[p] = list(vsl_positions)
            terms[p] = list(vsl_positions)
            continue
        if group == "links" and p in SEG:
            t = E.V(p, "K")
            tvs[p] = TV(t, 1, False, f"argument {p}")
        elif group == "links" and p == "v_ctrl":
            t = E.V("v_ctrl", "K.vsl")
            tvs[p] = TV(t, 1, False, f"argument {p}")
        elif p in FAM:
            t = ("fam", "J", E.S(f"mu.{p}"))
            tvs[p] = TV(t, 1, False, f"argument {p}")
        else:
            t = E.S(p)
            rank = scalar_rank if group in ("origins", "destinations", "nodes") else 0
            if p == "q_ramp":
                rank = scalar_rank
            tvs[p] = TV(t, rank, False, f"argument {p}")
        terms[p] = t
    return tvs, terms


def configurations(prim: str):
    opt = P.OPTIONAL.get(prim, [])
    types = P.TYPES.get(prim, [None])
    for typ in types:
        for k in range(len(opt) + 1):
            for present in itertools.combinations(opt, k):
                yield set(present), typ


def config_label(prim, present, typ):
    opt = P.OPTIONAL.get(prim, [])
    parts = []
    if typ is not None:
        parts.append(f"type={typ}")
    for o in opt:
        parts.append(f"{o}={'given' if o in present else 'None'}")
    return ",".join(parts) or "-"


def run_prim(prog: Program, impl: str, prim: str, present: set, typ, n1: bool,
             scalar_rank: int = 0) -> PrimRun:
    group, name = prim.split(".")
    mod = ENGINE_MOD[impl]
    fi = prog.function(mod, f"{GROUP_CLS[group]}.{name}")
    mi = prog.modules[fi.module]
    where = f"{mi.relpath}:{fi.node.lineno} {fi.qualname}"
    tvs, terms = arg_terms(prim, present, typ, scalar_rank, (0,) if n1 else (1, 3))
    results = []
    todo = [()]
    events_all = []
    while todo:
        dec = todo.pop()
        w = PrimWorld(prim_env(prim, n1))
        w.decisions = list(dec)
        it = Interp(prog, w, lib_semantics=impl)
        # positional call in interface order (the element layer calls positionally)
        args = []
        kwargs = {}
        for p in P.PRIMS[prim]:
            if p in tvs:
                args.append(tvs[p])
        raised = None
        out = None
        try:
            out = it.call_function(FuncV(fi, None, defcls=fi.cls), args, kwargs)
        except Raised as r:
            raised = str(r)
        results.append((tuple(w.trace), out, raised, it.events, list(w.assumptions)))
        for i in range(len(dec), len(w.trace)):
            todo.append(tuple(w.trace[:i]) + (not w.trace[i],))
        if len(results) > 8:
            raise AnalysisError(f"too many symbolic paths in {prim}")
    # python-level branching on a symbolic comparison is merged back into one term:
    # `x if c else y` / `if c: ... else: ...`  ==  ite(c, x, y)
    merged = _merge_paths(results)
    trace, out, raised, events, assumptions = results[0]
    if merged is not None:
        out, raised = merged
    evs = []
    for tr, o, ra, ev, asm in results:
        evs += [(e.kind, e.where, e.detail) for e in ev]
    term = out.t if isinstance(out, TV) else None
    pr = PrimRun(impl, prim, config_label(prim, present, typ), n1, term,
                 out.rank if isinstance(out, TV) else None,
                 out.fresh if isinstance(out, TV) else None,
                 evs, raised, terms, where, paths=len(results))
    if out is not None and not isinstance(out, TV):
        pr.raised = f"returns a non-symbolic value {out!r}"
    if merged is None:
        for tr, o, ra, ev, asm in results[1:]:
            pr.alt_terms.append((o.t if isinstance(o, TV) else None, ra, [a[0] for a in asm], tr))
    return pr


def _merge_paths(results):
    """(TV, raised) for the ite-tree of all paths, or None if it cannot be built"""
    if len(results) == 1:
        return None

    def build(items, depth):
        # items: list of (assumptions, out, raised)
        if len(items) == 1 and len(items[0][0]) <= depth:
            return items[0][1], items[0][2]
        conds = {a[0][depth][0] for a in items if len(a[0]) > depth}
        if len(conds) != 1 or any(len(a[0]) <= depth for a in items):
            raise ValueError("paths do not form a decision tree")
        cond = conds.pop()
        if not (E.is_term(cond) and cond[0] == "cmp"):
            raise ValueError("decision on a non-comparison")
        yes = [a for a in items if a[0][depth][1]]
        no = [a for a in items if not a[0][depth][1]]
        if not yes or not no:
            raise ValueError("one-sided decision")
        (ty, ry), (tn, rn) = build(yes, depth + 1), build(no, depth + 1)
        if ry or rn:
            return None, (ry or rn)
        if not isinstance(ty, TV) or not isinstance(tn, TV):
            raise ValueError("non-symbolic branch value")
        return TV(("ite", cond, ty.t, tn.t), max(ty.rank or 0, tn.rank or 0), ty.fresh and tn.fresh), None

    try:
        items = [(asm, out, raised) for (tr, out, raised, ev, asm) in results]
        return build(items, 0)
    except ValueError:
        return None


def spec_term(prim: str, terms: dict):
    f = P.FORMULAS[prim]
    kw = {}
    for k, v in terms.items():
        kk = "C_" if k == "C" else k
        kw[kk] = v
    return f(**kw)


def equal_terms(t1, t2, n1, nz=None):
    """position-wise equality; returns list of (pos, a, b) differences. n1: bool or env dict"""
    env = E.Env(n1 if isinstance(n1, dict) else {"K": n1})
    nz = nz or prim_normalizer(False)
    try:
        return M.compare(t1, t2, env, nz)
    except E.ShapeError as e:
        return [("shape", str(e), "")]


def prim_normalizer(with_signs: bool = True):
    """with_signs=False: pure equality of rational functions (clamps never fold)"""
    f = M.Facts()
    if not with_signs:
        return M.Normalizer(f)

    def positive(key):
        role, n = M._name_of(key)
        return n in ("T", "tau", "kappa", "lanes", "L", "rho_max", "rho_crit", "v_free", "a", "beta", "betas")

    def nonneg(key):
        role, n = M._name_of(key)
        return n in ("eta", "delta", "phi", "C", "rho", "v", "w", "d", "q", "r", "v_ctrl", "qdes",
                     "q_up", "v_up", "rho_down", "Veq", "q_ramp", "rho_first", "rho_last",
                     "rho_destination", "v_first", "q_lasts", "v_lasts", "rho_firsts", "q_orig")

    f.add_sym_rule(positive, ">0")
    f.add_sym_rule(nonneg, ">=0")
    nz = M.Normalizer(f)
    f.add_fact(E.add(E.ONE, E.S("alpha")), ">0")
    f.add_fact(E.sub(E.ONE, E.S("r")), ">=0")
    f.add_fact(E.sub(E.S("rho_max"), E.S("rho_crit")), ">0")
    f.add_fact(E.sub(E.S("rho_max"), E.S("rho_first")), ">=0")
    return nz


def all_runs(prog: Program, tier: str, impls=("numpy", "casadi"), scalar_rank=0):
    runs = []
    for impl in impls:
        for prim in P.PRIMS:
            n1s = (False, True) if prim.startswith("links.") else (False,)
            for present, typ in configurations(prim):
                for n1 in n1s:
                    runs.append(run_prim(prog, impl, prim, present, typ, n1, scalar_rank))
    return runs
