"""Concrete-graph world: a model of the part of the networkx.DiGraph API the
repository uses, so that the *real* `Network` properties and methods (`is_valid`,
`add_*`, `add_path`, `step`, the lookups) and `to_function`'s helpers can be
interpreted on small concrete graphs whose elements carry symbolic states.

Trusted model (networkx documented semantics): `add_node(n, **attr)` creates the
node if missing and updates its attribute dict; `add_edge(u, v, **attr)` creates
missing end nodes and creates/updates the edge attribute dict; `*_from` apply these
item by item; node / edge views are live and iterate in insertion order.
"""
from __future__ import annotations

import itertools
from typing import Any, Optional

from . import expr as E
from .front import AnalysisError, Program
from .interp import (
    AbsInt, ClassV, Coll, ExtMod, FuncV, GenV, IndexSet, Interp, Obj, Raised, TV,
)
from . import nxviews as NXV
from .wire import (
    DESTS, ENGINE_CLS, LINK, LINKVSL, NET, NODE, ORIGINS, RAMPS, World, _Bound,
)

VIEWS = "sym_metanet.views"


class GraphV:
    def __init__(self):
        self.node: dict = {}
        self.succ: dict = {}
        self.pred: dict = {}
        self.log: list = []  # mutation log (method, args)

    # --- mutators (networkx semantics)
    def add_node(self, n, **attr):
        self.log.append(("add_node", n, dict(attr)))
        if n not in self.node:
            self.node[n] = {}
            self.succ[n] = {}
            self.pred[n] = {}
        self.node[n].update(attr)

    def add_nodes_from(self, ns, **attr):
        for n in ns:
            if isinstance(n, (list, dict, set)):
                raise TypeError("unhashable node")
            if isinstance(n, tuple) and len(n) == 2 and isinstance(n[1], dict):
                self.add_node(n[0], **{**attr, **n[1]})
            else:
                self.add_node(n, **attr)

    def add_edge(self, u, v, **attr):
        self.log.append(("add_edge", u, v, dict(attr)))
        for n in (u, v):
            if n not in self.node:
                self.node[n] = {}
                self.succ[n] = {}
                self.pred[n] = {}
        d = self.succ[u].get(v, {})
        d.update(attr)
        self.succ[u][v] = d
        self.pred[v][u] = d

    def add_edges_from(self, es, **attr):
        for e in es:
            if not isinstance(e, (tuple, list)) or len(e) not in (2, 3):
                raise ValueError("edge tuple must be a 2-tuple or 3-tuple")
            if len(e) == 3:
                u, v, d = e
                self.add_edge(u, v, **{**attr, **d})
            else:
                u, v = e
                self.add_edge(u, v, **attr)

    # --- reads
    def out_edges(self, n=None):
        ns = [n] if n is not None else list(self.node)
        return [(u, v, d) for u in ns for v, d in self.succ.get(u, {}).items()]

    def in_edges(self, n=None):
        ns = [n] if n is not None else list(self.node)
        return [(u, v, d) for v in ns for u, d in self.pred.get(v, {}).items()]

    def copy(self):
        """networkx semantics: a new graph object with new adjacency and attribute dicts
        holding the same node / attribute objects"""
        g = GraphV()
        for n, d in self.node.items():
            g.node[n] = dict(d)
            g.succ[n] = {}
            g.pred[n] = {}
        for u, nbrs in self.succ.items():
            for v, d in nbrs.items():
                dd = dict(d)
                g.succ[u][v] = dd
                g.pred[v][u] = dd
        return g

    def snapshot(self):
        return (
            {n: dict(d) for n, d in self.node.items()},
            {(u, v): dict(d) for u, v, d in self.out_edges()},
        )


class NodeViewV:
    def __init__(self, g: GraphV):
        self.g = g


class LinkViewV:
    def __init__(self, g: GraphV, kind: str):
        self.g = g
        self.kind = kind


class GWorld(World):
    def __init__(self, prog: Program, impl: str = "casadi", decisions=(), link_key: str = "link"):
        self.prog = prog
        self.cfg = None
        self.impl = impl
        self.env = E.Env({})
        self.decisions = list(decisions)
        self.trace = []
        self.assumptions = []
        self.owned = set()
        self.containers_keepalive = []
        self.prims = []
        self.roles = {}
        self.links = []
        self.EXPL = Obj(ENGINE_CLS[impl], "ENGINE", kind="engine")
        self.CUR = Obj(ENGINE_CLS[impl], "CURRENT-ENGINE", kind="engine")
        self.current = self.CUR
        self.net = Obj(NET, "net", kind="gnet")
        self.net.attrs["name"] = "net"
        self.net.attrs["_graph"] = GraphV()
        self.consts = {}
        vm = prog.module(VIEWS)
        import ast as _ast

        for k, v in vm.assigns.items():
            if isinstance(v, _ast.Constant):
                self.consts[k] = v.value
        self.in_order = None  # optional permutation for the in-edge view iteration
        self.captured = {}
        self.build_engines()

    @property
    def graph(self) -> GraphV:
        """the graph object the network currently holds"""
        return self.net.attrs["_graph"]

    @graph.setter
    def graph(self, g: GraphV) -> None:
        self.net.attrs["_graph"] = g

    # ----------------------------------------------------------- builders
    def node(self, name):
        o = Obj(NODE, name, kind="node")
        o.attrs["name"] = name
        return o

    def link(self, name, cls="Link", nseg=None):
        fq = LINKVSL if cls == "LinkWithVsl" else LINK
        o = self._link(name, fq, False if nseg is None else (True if nseg == 1 else nseg))
        self.roles[name] = o
        self.links.append(o)
        if name not in self.env.n1 or nseg is not None:
            self.env.n1[name] = o.attrs["N"] if isinstance(o.attrs["N"], int) else nseg
        return o

    def origin(self, name, cls="Origin", otype=None):
        o = Obj(f"{ORIGINS}:{cls}", name, kind="origin")
        o.attrs["name"] = name
        for g in ("states", "next_states", "actions", "disturbances"):
            o.attrs[g] = None
        if cls in RAMPS:
            o.attrs["C"] = self._param(name, "C")
            o.attrs["flow_eq_type"] = otype or ("out" if cls == "MeteredOnRamp" else "limited")
        self.roles[name] = o
        return o

    def dest(self, name, cls="Destination"):
        o = Obj(f"{DESTS}:{cls}", name, kind="dest")
        o.attrs["name"] = name
        for g in ("states", "next_states", "actions", "disturbances"):
            o.attrs[g] = None
        self.roles[name] = o
        return o

    def other_object(self, name):
        """an object that is neither a Node nor a Link (for malformed paths)"""
        return Obj("sym_metanet.blocks.base:ElementBase", name, kind="other")

    def interp(self) -> Interp:
        return Interp(self.prog, self, lib_semantics=self.impl)

    def other_params(self, delta=True, phi=True):
        d = {
            "T": TV(E.S("T"), 0, False, "parameter T"),
            "tau": TV(E.S("tau"), 0, False, "parameter tau"),
            "eta": TV(E.S("eta"), 0, False, "parameter eta"),
            "kappa": TV(E.S("kappa"), 0, False, "parameter kappa"),
        }
        if delta:
            d["delta"] = TV(E.S("delta"), 0, False, "parameter delta")
        if phi:
            d["phi"] = TV(E.S("phi"), 0, False, "parameter phi")
        return d

    # ------------------------------------------------------------ callbacks
    def iterate(self, it, v, node):
        if isinstance(v, NodeViewV):
            return list(v.g.node)
        if isinstance(v, LinkViewV):
            key = self.consts["LINKENTRY"]
            if v.kind == "out":
                return [(u, w, d.get(key)) for u, w, d in v.g.out_edges()]
            # the repository's InLinkViewWrapper.__iter__ yields (node, predecessor, link)
            out = [(w, u, d.get(key)) for u, w, d in v.g.in_edges()]
            return out
        if isinstance(v, GraphV):
            return list(v.node)
        if isinstance(v, Obj) and v.kind == "view":
            r = NXV.dunder(self, it, v, "__iter__", [], node)
            return it.iterate(r, node, it.stack[-1] if it.stack else None)
        return World.iterate(self, it, v, node)

    def contains(self, it, container, item, node):
        if isinstance(container, NodeViewV):
            return item in container.g.node
        if isinstance(container, GraphV):
            return item in container.node
        if isinstance(container, Obj) and container.kind == "view":
            return bool(NXV.dunder(self, it, container, "__contains__", [item], node))
        return World.contains(self, it, container, item, node)

    def getitem(self, it, c, k, node):
        if isinstance(c, NodeViewV):
            if k in c.g.node:
                return c.g.node[k]
            raise Raised("KeyError", node, it.stack[-1].fi, repr(k))
        if isinstance(c, LinkViewV):
            u, w = k
            d = c.g.succ.get(u, {}).get(w) if c.kind == "out" else c.g.pred.get(w, {}).get(u)
            if d is None:
                raise Raised("KeyError", node, it.stack[-1].fi, repr(k))
            return d.get(self.consts["LINKENTRY"])
        if isinstance(c, GraphV):
            if k in c.succ:
                return c.succ[k]
            raise Raised("KeyError", node, it.stack[-1].fi, repr(k))
        if isinstance(c, Obj) and c.kind == "view":
            return NXV.dunder(self, it, c, "__getitem__", [k], node)
        return World.getitem(self, it, c, k, node)

    def getattr(self, it, o, attr, node):
        if isinstance(o, GraphV):
            if attr == "nodes":
                return NodeViewV(o)
            if attr in ("add_node", "add_nodes_from", "add_edge", "add_edges_from"):
                fn = getattr(o, attr)

                def call(*a, **kw):
                    a = [self._listify(it, x, node) for x in a]
                    try:
                        fn(*a, **kw)
                    except (TypeError, ValueError) as ex:
                        for d in o.node.values():
                            self.owned.add(id(d))
                        raise Raised(type(ex).__name__, node, it.stack[-1].fi if it.stack else None, str(ex))
                    # the attribute dicts created by the model belong to the graph
                    for d in o.node.values():
                        self.owned.add(id(d))
                    for _, _, d in o.out_edges():
                        self.owned.add(id(d))
                    return None

                return _Bound(call)
            if attr == "copy":
                def cp(*a, **k):
                    g2 = o.copy()
                    for d in g2.node.values():
                        self.owned.add(id(d))
                    for _, _, d in g2.out_edges():
                        self.owned.add(id(d))
                    return g2
                return _Bound(cp)
            if attr == "has_node":
                return _Bound(lambda n: n in o.node)
            if attr == "has_edge":
                return _Bound(lambda u, v: v in o.succ.get(u, {}))
            if attr in ("number_of_nodes", "order"):
                return _Bound(lambda: len(o.node))
            if attr == "successors":
                return _Bound(lambda n: list(o.succ.get(n, {})))
            if attr == "predecessors":
                return _Bound(lambda n: list(o.pred.get(n, {})))
            if attr == "name":
                return "net"
            raise it.err(node, f"DiGraph.{attr} is not in the graph model")
        if isinstance(o, NodeViewV):
            if attr == "data":
                def data(data=True, default=None):
                    # networkx NodeView.data(data=True, default=None)
                    if data is True:
                        return [(n, d) for n, d in o.g.node.items()]
                    if data is False:
                        return list(o.g.node)
                    return [(n, d[data] if data in d else default) for n, d in o.g.node.items()]
                return _Bound(data)
            if attr == "items":
                return _Bound(lambda: [(n, d) for n, d in o.g.node.items()])
            if attr == "values":
                return _Bound(lambda: list(o.g.node.values()))
            if attr == "keys":
                return _Bound(lambda: list(o.g.node))
            raise it.err(node, f"NodeView.{attr} is not in the graph model")
        return World.getattr(self, it, o, attr, node)

    def super_getattr(self, it, obj, attr, node):
        """`super().attr` when no repository class further up the MRO defines it"""
        if isinstance(obj, Obj) and obj.kind == "view":
            return NXV.base_method(self, it, obj, attr, node)
        return None

    def length(self, it, v, node):
        if isinstance(v, Obj) and v.kind == "view":
            return NXV.dunder(self, it, v, "__len__", [], node)
        return None

    def _listify(self, it, x, node):
        from .interp import IterV

        if isinstance(x, (GenV, IterV)):
            return it.iterate(x, node, it.stack[-1] if it.stack else None)
        return x

    def call_value(self, it, f, args, kwargs, node):
        if isinstance(f, NXV._B):
            try:
                return f.fn(*args, **kwargs)
            except TypeError as ex:
                if "argument" in str(ex):
                    raise Raised("TypeError", node, it.stack[-1].fi if it.stack else None, str(ex))
                raise
        if isinstance(f, Obj) and f.kind == "view":
            m = it.find_method(f.cls, "__call__")
            if m is not None:
                return it.call_function(FuncV(m, f, defcls=m.cls), list(args), dict(kwargs), node)
            return NXV.base_method(self, it, f, "__call__", node).fn(*args, **kwargs)
        if isinstance(f, LinkViewV):
            if not args or args[0] is None:
                return Coll(f.kind, None, len(self.iterate(it, f, node)), self.iterate(it, f, node), "All")
            n = args[0]
            if n not in f.g.node:
                it.event("view-arg", node, f"per-node link view called with {n!r}, which is not a node of the graph")
                raise Raised("NetworkXError", node, it.stack[-1].fi, "node not in graph")
            key = self.consts["LINKENTRY"]
            if f.kind == "out":
                mem = [(u, w, d.get(key)) for u, w, d in f.g.out_edges(n)]
            else:
                mem = [(u, w, d.get(key)) for u, w, d in f.g.in_edges(n)]
            nm = getattr(n, "ident", "?")
            return Coll(f.kind, n, len(mem), mem, f"{'Out' if f.kind == 'out' else 'In'}({nm})")
        return World.call_value(self, it, f, args, kwargs, node)

    def construct(self, it, cv, args, kwargs, node):
        if cv.fq in self.prog.classes:
            vk = NXV.view_kind(self.prog, cv.fq)
            if vk is not None:
                if len(args) != 1 or kwargs or not isinstance(args[0], GraphV):
                    raise Raised("TypeError", node, it.stack[-1].fi if it.stack else None,
                                 "an edge view is constructed from the graph")
                if self.prog.lookup_method(cv.fq, "__init__") is not None:
                    raise it.err(node, f"{cv.fq} defines its own __init__ (not in the view model)")
                return NXV.make_view(self, cv.fq, vk, args[0])
        cname = cv.fq.split(":")[1]
        if cname.endswith("Error") or cname.endswith("Warning"):
            return Obj(cv.fq, f"<{cname}>", {"args": tuple(args)}, kind="exception")
        return NotImplemented

    def call_ext(self, it, name, args, kwargs, node):
        if name == "itertools.chain":
            out = []
            for a in args:
                out.extend(it.star_items(a, node, it.stack[-1]))
            from .interp import IterV as _IterV

            return _IterV(out)  # a one-shot iterator
        if name == "itertools.product":
            its = [it.star_items(a, node, it.stack[-1]) for a in args]
            return list(itertools.product(*its))
        if name.split(".")[0] == "networkx" and name.split(".")[-1] == "topological_sort" and args \
                and isinstance(args[0], GraphV):
            g = args[0]
            indeg = {n: len(g.pred[n]) for n in g.node}
            ready = [n for n in g.node if indeg[n] == 0]
            out = []
            while ready:
                n = ready.pop(0)
                out.append(n)
                for m in g.succ[n]:
                    indeg[m] -= 1
                    if indeg[m] == 0:
                        ready.append(m)
            if len(out) != len(g.node):
                raise Raised("NetworkXUnfeasible", node, it.stack[-1].fi if it.stack else None,
                             "Graph contains a cycle or graph changed during iteration")
            return out
        if name in ("networkx.DiGraph", "networkx.classes.digraph.DiGraph"):
            return GraphV()
        if name == "casadi.Function":
            self.captured["Function"] = (args, kwargs)
            return Obj("casadi:Function", "F", kind="function")
        return World.call_ext(self, it, name, args, kwargs, node)

    def on_setattr(self, it, o, attr, v, node):
        if o.kind == "gnet":
            if attr not in ("_graph", "name"):
                it.event("net-attr-store", node, f"attribute `{attr}` stored on the network")
            return
        World.on_setattr(self, it, o, attr, v, node)
