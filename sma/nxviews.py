"""Interpretation of the repository's link-view wrappers (`views.py`).

The wrappers subclass networkx's `OutEdgeView` / `InEdgeView`.  Their own methods
(`__getitem__`, `__iter__`, `__call__`, and whatever a change adds) are interpreted
from the repository's source; only what they reach in the *base classes* is a
model, written from networkx/classes/reportviews.py:

    OutEdgeView.__init__(G):  _graph = G; _adjdict = G._succ; _nodes_nbrs = G._succ.items
    InEdgeView.__init__(G):   _graph = G; _adjdict = G._pred; _nodes_nbrs = G._pred.items
    OutEdgeView.__getitem__((u, v)) -> _adjdict[u][v]           (KeyError if absent)
    InEdgeView.__getitem__((u, v))  -> _adjdict[v][u]
    OutEdgeView.__iter__  -> (n, nbr)  for n, nbrs in _nodes_nbrs() for nbr in nbrs
    InEdgeView.__iter__   -> (nbr, n)  for n, nbrs in _nodes_nbrs() for nbr in nbrs
    __len__ -> number of edges;  __contains__((u, v))
    __call__(nbunch=None, data=False, *, default=None):
        nbunch None and data False -> the view itself; otherwise a data view over
        `nbunch` (a single node of the graph, or an iterable of nodes; a node that is
        not in the graph -> NetworkXError) yielding
            data is True  -> (u, v, attribute dict)
            data is False -> (u, v)
            data == key   -> (u, v, dict[key] if key in dict else default)
        with (u, v) = (n, nbr) for the outward and (nbr, n) for the inward view.

The per-node data view is returned as a `Coll` (the interpreter's collection value),
so the callers' `len()`, iteration and unpacking are unchanged.
"""
from __future__ import annotations

from .interp import Coll, FuncV, GenV, IterV, Obj, Raised


class _B:
    """a python callable standing for a base-class method"""

    def __init__(self, fn):
        self.fn = fn


def view_kind(prog, fq: str):
    """'out' / 'in' when the repository class derives from networkx's edge views"""
    for c in prog.mro(fq):
        for b in prog.classes[c].ext_bases:
            last = b.split(".")[-1]
            if last == "OutEdgeView":
                return "out"
            if last == "InEdgeView":
                return "in"
    return None


def make_view(world, cls_fq: str, kind: str, g) -> Obj:
    adj = g.succ if kind == "out" else g.pred
    o = Obj(cls_fq, f"{kind}-links-view", kind="view")
    o.attrs["_graph"] = g
    o.attrs["_adjdict"] = adj
    o.attrs["_nodes_nbrs"] = _B(lambda: list(adj.items()))
    o.attrs["__kind__"] = kind
    return o


def _raise(it, node, exc, msg=""):
    raise Raised(exc, node, it.stack[-1].fi if it.stack else None, msg)


def _edge(kind, n, nbr):
    return (n, nbr) if kind == "out" else (nbr, n)


def base_method(world, it, o: Obj, attr: str, node):
    """the networkx base-class behaviour of `attr` on the view `o` (or None)"""
    kind = o.attrs["__kind__"]
    adj = o.attrs["_adjdict"]
    g = o.attrs["_graph"]

    if attr == "__getitem__":
        def getitem(e):
            if isinstance(e, slice):
                _raise(it, node, "NetworkXError", "slices are not supported")
            try:
                u, v = e
            except (TypeError, ValueError):
                _raise(it, node, "ValueError", "edge key must be a pair of nodes")
            a, b = (u, v) if kind == "out" else (v, u)
            try:
                return adj[a][b]
            except (KeyError, TypeError):
                _raise(it, node, "KeyError", repr(e))
        return _B(getitem)
    if attr == "__iter__":
        return _B(lambda: IterV([_edge(kind, n, nbr) for n, nbrs in adj.items() for nbr in nbrs]))
    if attr == "__len__":
        return _B(lambda: sum(len(nbrs) for nbrs in adj.values()))
    if attr == "__contains__":
        def contains(e):
            try:
                u, v = e
                a, b = (u, v) if kind == "out" else (v, u)
                return b in adj[a]
            except (KeyError, TypeError, ValueError):
                return False
        return _B(contains)
    if attr in ("__call__", "data"):
        is_data = attr == "data"

        def call(*args, **kw):
            # signature of the base class: (nbunch=None, data=False, *, default=None)
            # `data(data=True, default=None, nbunch=None)`
            try:
                if is_data:
                    nb, data, default = _bind_data(*args, **kw)
                else:
                    nb, data, default = _bind_call(*args, **kw)
            except TypeError as e:
                _raise(it, node, "TypeError", str(e))
            if nb is None and data is False:
                return o
            if nb is None:
                nodes = list(adj)
                label = "All"
            elif _hashable(nb) and nb in g.node:
                nodes = [nb]
                label = f"{'Out' if kind == 'out' else 'In'}({getattr(nb, 'ident', '?')})"
            else:
                if isinstance(nb, (list, tuple, set, frozenset, GenV, IterV)):
                    items = it.iterate(nb, node, it.stack[-1] if it.stack else None)
                    nodes = [n for n in items if _hashable(n) and n in g.node]
                    label = "Some"
                else:
                    it.event("view-arg", node, f"per-node link view called with {nb!r}, which is not a node of the graph")
                    _raise(it, node, "NetworkXError", "node not in graph")
            mem = []
            for n in nodes:
                for nbr, dd in adj[n].items():
                    u, v = _edge(kind, n, nbr)
                    if data is True:
                        mem.append((u, v, dd))
                    elif data is False:
                        mem.append((u, v))
                    else:
                        mem.append((u, v, dd[data] if data in dd else default))
            return Coll(kind, nb, len(mem), mem, label)
        return _B(call)
    return None


def _bind_call(nbunch=None, data=False, *, default=None):
    return nbunch, data, default


def _bind_data(data=True, default=None, nbunch=None):
    return nbunch, data, default


def _hashable(x):
    try:
        hash(x)
        return True
    except TypeError:
        return False


def dunder(world, it, o: Obj, name: str, args, node):
    """call the view's `name` the way python would: the repository's own definition if
    the class (or a repository base) has one, the networkx base otherwise"""
    m = it.find_method(o.cls, name)
    if m is not None:
        return it.call_function(FuncV(m, o, defcls=m.cls), list(args), {}, node)
    b = base_method(world, it, o, name, node)
    if b is None:
        raise it.err(node, f"edge view has no {name} in the model")
    return b.fn(*args)
