"""Interpretation of `casadi.Engine.to_function` and its helpers on a concrete
network (concrete-graph world) with a small trusted model of the CasADi API they use:
`isinstance(x, cs.SX|cs.MX)`, `x.n_dep()`, `x.size1()`, `cs.symvar`, `cs.vcat`,
`cs.vertcat`, `cs.Function` (captured, not built)."""
from __future__ import annotations

from dataclasses import dataclass, field
from typing import Any, Optional

from . import expr as E
from . import model as M
from .front import AnalysisError, Program
from .gworld import GWorld
from .interp import AbsInt, FuncV, IndexSet, Interp, Obj, Raised, TV, _Const
from .wire import ENGINE_CLS, LINKVSL, NET


class CompileWorld(GWorld):
    def __init__(self, prog: Program, sym_type: str = "SX", decisions=()):
        self.sym_type = sym_type
        super().__init__(prog, "casadi", decisions)
        self.scan_only = False
        self.vsl_len: dict = {}

    # ---- casadi model
    def isinstance_ext(self, it, o, k, node):
        if k.name == "casadi.SX":
            return isinstance(o, TV) and self.sym_type == "SX"
        if k.name == "casadi.MX":
            return isinstance(o, TV) and self.sym_type == "MX"
        return GWorld.isinstance_ext(self, it, o, k, node)

    def _is_pure_symbol(self, t) -> bool:
        k = t[0]
        if k in ("s", "v", "w", "sa"):
            return True
        if k == "idx":
            return self._is_pure_symbol(t[1])
        return False

    def _length(self, it, v: TV, node) -> int:
        sh = E.shape(v.t, self.env)
        if sh == E.SC:
            return 1
        if sh[0] == "tuple":
            return sh[1]
        if sh[0] == "set":
            n = self.vsl_len.get(sh[1])
            if n is not None:
                return n
        raise it.err(node, f"length of a value of abstract shape {sh}")

    def getattr(self, it, o, attr, node):
        if isinstance(o, TV):
            if attr == "n_dep":
                return _Const(0 if self._is_pure_symbol(o.t) else 2)
            if attr in ("size1", "numel"):
                return _Const(self._length(it, o, node))
            if attr == "size2":
                return _Const(1)
            if attr == "name":
                nm = self.str_of_symbol(it, o, node)
                if nm is None:
                    raise it.err(node, "name() of a value that is not a symbol")
                return _Const(nm)
        return GWorld.getattr(self, it, o, attr, node)

    def str_of_symbol(self, it, v, node):
        """casadi's printed name of a symbol / of one entry of an SX vector symbol:
        `SX.sym(name, n)` has the entries name_0 .. name_{n-1} (the entry itself is `name`
        for n == 1); the repository names its variables `<var>_<element name>`"""
        t = v.t
        k = None
        if t[0] == "idx" and isinstance(t[2], int):
            t, k = t[1], t[2]
        if t[0] in ("v", "w"):
            owner = self.roles.get(t[2].split(".")[0])
            base = f"{t[1]}_{owner.attrs.get('name', t[2]) if owner is not None else t[2]}"
        elif t[0] == "s" and "." in t[1]:
            el, var = t[1].split(".", 1)
            owner = self.roles.get(el)
            base = f"{var}_{owner.attrs.get('name', el) if owner is not None else el}"
        else:
            return None
        if k is None or self.sym_type == "MX":
            return base
        return f"{base}_{k}"

    def call_ext(self, it, name, args, kwargs, node):
        if name == "casadi.symvar":
            v = args[0]
            if not isinstance(v, TV):
                raise it.err(node, "symvar of a non-symbolic value")
            syms = []
            for s in sorted(M.symbols(v.t), key=repr):
                if s[0] in ("v", "w", "s"):
                    syms.append(s)
            if self.sym_type == "MX":
                return [TV(s, 1, False) for s in syms]
            out = []
            for s in syms:
                tv = TV(s, 1, False)
                n = self._length(it, tv, node)
                if n == 1:
                    out.append(tv)
                else:
                    out.extend(TV(E.idx(s, k), 0, False) for k in range(n))
            return out
        if name == "casadi.is_equal":
            a, b = args[0], args[1]
            if isinstance(a, TV) and isinstance(b, TV):
                return a.t == b.t
            return a is b
        if name == "casadi.depends_on":
            a, b = args
            if not isinstance(a, TV) or not isinstance(b, TV):
                raise it.err(node, "depends_on of non-symbolic values")
            return bool(M.symbols(a.t) & M.symbols(b.t))
        return GWorld.call_ext(self, it, name, args, kwargs, node)

    def intercept_call(self, it, f, args, kwargs, node):
        if self.scan_only and f.fi.module == "sym_metanet.engines.casadi" and f.fi.qualname in (
            "_filter_vars", "_gather_inputs", "_gather_outputs"):
            raise ScanPassed()
        return GWorld.intercept_call(self, it, f, args, kwargs, node)


class ScanPassed(Exception):
    pass


# --------------------------------------------------------------- the network
@dataclass
class Net:
    w: CompileWorld
    links: list
    origins: list
    dests: list
    nodes: dict


def build_network(prog: Program, sym_type="SX", variant="merge", same_names=False, vsl=True) -> Net:
    """merge (default):
         N1(O1 mainstream) -L1-> N2(O2 ramp) -L2[vsl]-> N3(D1 congested);  N4(O3 ramp) -L3-> N2.
         Nodes are inserted N1..N4, edges L1, L2, L3: the in-edge iteration order (L1, L3, L2)
         differs from the out-edge order (L1, L2, L3).
       minimal:  N1(ideal origin) -L1[N=1]-> N2(ideal destination): no actions, no disturbances.
       bifurcation: N1(O1 mainstream) -L1-> N2 -L2-> N3(D1), N2 -L3-> N4(D2 congested).
       long:     N1(O1 mainstream) -L1[N=12]-> N2(D1 congested): a link with more than ten
                 segments (entry names of an SX vector stop sorting like their indices)."""
    w = CompileWorld(prog, sym_type)
    g, K = w.graph, w.consts
    if variant == "interleaved":
        # N1(O1 ramp: r) -L1-> N2(O2 simplified ramp: q) -L2-> N3(O3 ramp: r) -L3-> N4(D1): the action
        # names r, q, r interleave along the element order
        N = {k: w.node(k) for k in ("N1", "N2", "N3", "N4")}
        L1, L2, L3 = w.link("L1", "Link", nseg=2), w.link("L2", "Link", nseg=1), w.link("L3", "Link", nseg=2)
        O1 = w.origin("O1", "MeteredOnRamp", "out")
        O2 = w.origin("O2", "SimplifiedMeteredOnRamp", "limited")
        O3 = w.origin("O3", "MeteredOnRamp", "in")
        D1 = w.dest("D1", "Destination")
        g.add_node(N["N1"], **{K["ORIGINENTRY"]: O1})
        g.add_node(N["N2"], **{K["ORIGINENTRY"]: O2})
        g.add_node(N["N3"], **{K["ORIGINENTRY"]: O3})
        g.add_node(N["N4"], **{K["DESTINATIONENTRY"]: D1})
        g.add_edge(N["N1"], N["N2"], **{K["LINKENTRY"]: L1})
        g.add_edge(N["N2"], N["N3"], **{K["LINKENTRY"]: L2})
        g.add_edge(N["N3"], N["N4"], **{K["LINKENTRY"]: L3})
        return Net(w, [L1, L2, L3], [O1, O2, O3], [D1], N)
    if variant == "ring":
        # N1 -L1-> N2 -L2-> N1: a valid network without any origin or destination
        N = {k: w.node(k) for k in ("N1", "N2")}
        L1, L2 = w.link("L1", "Link", nseg=2), w.link("L2", "Link", nseg=1)
        g.add_node(N["N1"])
        g.add_node(N["N2"])
        g.add_edge(N["N1"], N["N2"], **{K["LINKENTRY"]: L1})
        g.add_edge(N["N2"], N["N1"], **{K["LINKENTRY"]: L2})
        return Net(w, [L1, L2], [], [], N)
    if variant == "long":
        N = {k: w.node(k) for k in ("N1", "N2")}
        L1 = w.link("L1", "Link", nseg=12)
        O1 = w.origin("O1", "MainstreamOrigin")
        D1 = w.dest("D1", "CongestedDestination")
        g.add_node(N["N1"], **{K["ORIGINENTRY"]: O1})
        g.add_node(N["N2"], **{K["DESTINATIONENTRY"]: D1})
        g.add_edge(N["N1"], N["N2"], **{K["LINKENTRY"]: L1})
        return Net(w, [L1], [O1], [D1], N)
    if variant == "minimal":
        N = {k: w.node(k) for k in ("N1", "N2")}
        L1 = w.link("L1", "Link", nseg=1)
        O1 = w.origin("O1", "Origin")
        D1 = w.dest("D1", "Destination")
        g.add_node(N["N1"], **{K["ORIGINENTRY"]: O1})
        g.add_node(N["N2"], **{K["DESTINATIONENTRY"]: D1})
        g.add_edge(N["N1"], N["N2"], **{K["LINKENTRY"]: L1})
        return Net(w, [L1], [O1], [D1], N)
    if variant == "bifurcation":
        N = {k: w.node(k) for k in ("N1", "N2", "N3", "N4")}
        L1 = w.link("L1", "Link", nseg=2)
        L2 = w.link("L2", "LinkWithVsl" if vsl else "Link", nseg=2)
        w.env.n1["L2.vsl"] = 1
        w.vsl_len["vsl"] = 1
        L3 = w.link("L3", "Link", nseg=3)
        O1 = w.origin("O1", "MainstreamOrigin")
        D1 = w.dest("D1", "Destination")
        D2 = w.dest("D2", "CongestedDestination")
        g.add_node(N["N1"], **{K["ORIGINENTRY"]: O1})
        g.add_node(N["N2"])
        g.add_node(N["N3"], **{K["DESTINATIONENTRY"]: D1})
        g.add_node(N["N4"], **{K["DESTINATIONENTRY"]: D2})
        g.add_edge(N["N1"], N["N2"], **{K["LINKENTRY"]: L1})
        g.add_edge(N["N2"], N["N3"], **{K["LINKENTRY"]: L2})
        g.add_edge(N["N2"], N["N4"], **{K["LINKENTRY"]: L3})
        return Net(w, [L1, L2, L3], [O1], [D1, D2], N)
    N = {k: w.node(k) for k in ("N1", "N2", "N3", "N4")}
    L1 = w.link("L1", "Link", nseg=2)
    L2 = w.link("L2", "LinkWithVsl" if vsl else "Link", nseg=3)
    w.env.n1["L2.vsl"] = 2
    L3 = w.link("L3", "Link", nseg=1)
    w.vsl_len["vsl"] = 2
    O1 = w.origin("O1", "MainstreamOrigin")
    O2 = w.origin("O2", "MeteredOnRamp", "out")
    O3 = w.origin("O3", "SimplifiedMeteredOnRamp", "limited")
    D1 = w.dest("D1", "CongestedDestination")
    # the element names do not sort like the order of attachment
    O1.attrs["name"], O2.attrs["name"], O3.attrs["name"] = "Oz", "Oy", "Ox"
    L1.attrs["name"], L2.attrs["name"], L3.attrs["name"] = "Lc", "La", "Lb"
    w.name_alias = dict(getattr(w, "name_alias", {}) or {},
                        Oz="O1", Oy="O2", Ox="O3", Lc="L1", La="L2", Lb="L3")
    if same_names:
        L3.attrs["name"] = L1.attrs["name"]
    g.add_node(N["N1"], **{K["ORIGINENTRY"]: O1})
    g.add_node(N["N2"], **{K["ORIGINENTRY"]: O2})
    g.add_node(N["N3"], **{K["DESTINATIONENTRY"]: D1})
    g.add_node(N["N4"], **{K["ORIGINENTRY"]: O3})
    g.add_edge(N["N1"], N["N2"], **{K["LINKENTRY"]: L1})
    g.add_edge(N["N2"], N["N3"], **{K["LINKENTRY"]: L2})
    g.add_edge(N["N4"], N["N2"], **{K["LINKENTRY"]: L3})
    return Net(w, [L1, L2, L3], [O1, O2, O3], [D1], N)


def set_opaque_states(net: Net, clamp_init=False):
    """states/actions/disturbances = plain symbols, next_states = opaque symbols `<var>+`"""
    w = net.w

    def sym(var, o, vec):
        t = E.V(var, o.ident) if vec else E.S(f"{o.ident}.{var}")
        tv = TV(t, 1, False, f"{var} of {o.ident}")
        if clamp_init and var in ("rho", "v", "w"):
            return TV(("max", E.ZERO, t), 1, True)
        return tv

    for l in net.links:
        l.attrs["states"] = {"rho": sym("rho", l, True), "v": sym("v", l, True)}
        l.attrs["next_states"] = {"rho": TV(E.V("rho+", l.ident), 1), "v": TV(E.V("v+", l.ident), 1)}
        if l.cls == LINKVSL:
            l.attrs["actions"] = {"v_ctrl": TV(E.V("v_ctrl", l.ident + ".vsl"), 1, False)}
    for o in net.origins:
        cls = o.cls.split(":")[1]
        if cls == "Origin":
            continue
        o.attrs["states"] = {"w": sym("w", o, False)}
        o.attrs["next_states"] = {"w": TV(E.S(f"{o.ident}.w+"), 1)}
        act = {"MainstreamOrigin": "v_ctrl", "MeteredOnRamp": "r", "SimplifiedMeteredOnRamp": "q"}[cls]
        o.attrs["actions"] = {act: sym(act, o, False)}
        o.attrs["disturbances"] = {"d": sym("d", o, False)}
    for d in net.dests:
        if d.cls.split(":")[1] == "CongestedDestination":
            d.attrs["disturbances"] = {"d": sym("d", d, False)}
    for l in net.links:
        for k in list(w.env.n1):
            pass


def run_step(prog: Program, net: Net, flags=None, delta=True, phi=True) -> Interp:
    w = net.w
    it = w.interp()
    fi = prog.function("sym_metanet.network", "Network.step")
    kw = dict(w.other_params(delta, phi))
    kw["engine"] = w.EXPL
    if flags:
        kw.update({f: True for f in flags})
    it.call_function(FuncV(fi, w.net, defcls=NET), [], kw)
    return it


def to_function(prog: Program, net: Net, compact=0, more_out=False, parameters=None, other=None,
                scan_only=False, it=None):
    """Interpret Engine.to_function; returns ('function', names_in, args_in, names_out, args_out,
    opts, interp) / ('raise', Raised, interp) / ('scan-passed', interp)"""
    w = net.w
    w.scan_only = scan_only
    w.captured.pop("Function", None)
    it = it or w.interp()  # (a caller may keep one interpreter, i.e. one process, for several calls)
    fi = prog.function("sym_metanet.engines.casadi", "Engine.to_function")
    kw = {"compact": compact, "more_out": more_out}
    if parameters is not None:
        kw["parameters"] = parameters
    kw.update(other or {})
    try:
        ret = it.call_function(FuncV(fi, w.EXPL, defcls=ENGINE_CLS["casadi"]), [w.net], kw)
    except ScanPassed:
        return ("scan-passed", it)
    except Raised as e:
        return ("raise", e, it)
    cap = w.captured.get("Function")
    if cap is None:
        if isinstance(ret, Obj) and ret.kind == "function":
            # no casadi.Function was built by this call: a function object made earlier is handed back
            return ("reused", ret, it)
        raise AnalysisError("to_function returned without constructing a casadi.Function")
    args, kwargs = cap
    if len(args) < 5:
        raise AnalysisError("casadi.Function called with an unexpected shape")
    name, args_in, args_out, names_in, names_out = args[:5]
    opts = args[5] if len(args) > 5 else kwargs.get("opts", {})
    return ("function", list(names_in), list(args_in), list(names_out), list(args_out), opts, it)


def recompile_after_restep(prog: Program, sym_type="SX", compact=1, more_out=False):
    """compile, step the same network again with another sampling time, compile again with the
    same options on the same engine object: (first result, second result, name of the second T).
    The second function must be built from the results of the second step."""
    net = build_network(prog, sym_type, variant="merge")
    w = net.w
    run_step(prog, net)
    first = to_function(prog, net, compact=compact, more_out=more_out, other={"T": TV(E.S("T"), 0, False)})
    it2 = w.interp()
    fi2 = prog.function("sym_metanet.network", "Network.step")
    kw2 = dict(w.other_params(True, True))
    kw2["T"] = TV(E.S("T2"), 0, False, "parameter T")
    kw2["engine"] = w.EXPL
    it2.call_function(FuncV(fi2, w.net, defcls=NET), [], kw2)
    second = to_function(prog, net, compact=compact, more_out=more_out, other={"T": TV(E.S("T2"), 0, False)})
    return net, first, second


def check_recompile(rep, prog, where, rule="recompiled-after-restep"):
    """shared by the checks whose property speaks about the function of the *most recent* step"""
    from . import model as M_

    n = 0
    for st in ("SX", "MX"):
        for compact in (0, 1, 2):
            n += 1
            label = f"{st} compact={compact}: step, compile, step again (other T), compile again on the same engine"
            try:
                net, first, second = recompile_after_restep(prog, st, compact)
            except Raised as e:
                rep.refuted(rule, label, where, f"raises {e.exc}: {e.msg}", key=f"recompile|raise|{e.exc}")
                continue
            if second[0] == "reused":
                rep.refuted(rule, label, where, "the second to_function returns a function object made before the network "
                            "was stepped again (its results are those of the earlier step)", key="recompile|reused")
                continue
            if second[0] != "function" or first[0] != "function":
                bad = second if second[0] != "function" else first
                rep.refuted(rule, label, where, f"to_function raises {bad[1].exc}: {bad[1].msg}",
                            key=f"recompile|raise|{bad[1].exc}")
                continue
            syms = set()
            for a in second[4]:
                if isinstance(a, TV):
                    syms |= M_.symbols(a.t)
            ok = ("s", "T2") in syms and ("s", "T") not in syms
            rep.check(ok, rule, label, where, "the results of the second function do not depend on the sampling time of "
                      "the most recent step only (T2): " + ", ".join(sorted(s[1] for s in syms if s[0] == "s" and s[1] in ("T", "T2"))),
                      key="recompile|stale")
    return n


def flatten(w: CompileWorld, v, nz) -> list:
    """scalar components of an argument/result, as normalised rational functions"""
    if not isinstance(v, TV):
        raise AnalysisError(f"function argument is not symbolic: {v!r}")
    env = w.env
    sh = E.shape(v.t, env)
    out = []
    if sh[0] == "set":
        n = w.vsl_len.get(sh[1], 1)
        for k in range(n):
            out.append(nz.rf(E.at(v.t, ("rank", sh[1], None, ("first", k)), env)))
        return out
    for pos in E.positions(sh, env):
        out.append(nz.rf(E.at(v.t, pos, env)))
    return out


def ident_of(r, nz):
    """(var, element, position) if the rational function is a single symbol"""
    a = r.single_atom()
    if a is None:
        return None
    d = nz.desc(a)
    if d[0] != "sym":
        return None
    key = d[1]
    if key[0] == "s":
        el, _, var = key[1].rpartition(".")
        return (var, el, 0)
    if key[0] == "sa":
        pos = key[3]
        if pos[0] == "only":
            k = 0
        elif pos[0] == "first":
            k = pos[1]
        elif pos[0] == "rank":
            k = ("rank", pos[3][1] if pos[3] else 0)
        else:
            k = pos
        return (key[1], key[2], k)
    return None
