"""C02 - vehicles are conserved by every step, network-wide and at every node."""
from __future__ import annotations

from .. import balance as B
from .. import expr as E
from .. import model as M
from .. import primcheck as PC
from ..core import Report
from ..interp import Raised
from .common import aliasing_event, require_fresh_lookups, TRUSTED_WIRE, cfg_class, require_no_errors, wire_results

META = {
    "level": "proof",
    "technique": "static analysis: ring identities on interpreted terms - the four conservation lemmas on every "
    "local topology class, and the network-wide and per-node balances as polynomial identities on "
    "interpreted concrete small networks",
    "rule": "obligations = (1) per engine: lanes L (step_density - rho) - T (q_up - q) == 0 and step_queue - w - "
    "T (d - q) == 0 as identities; (2) per configuration: at the call of step_density the arguments are the "
    "link's own rho, lanes, L, T, q is rho v lam of the same link and q_up is q shifted by one segment with "
    "the node inflow in front; (3) node split: inflow x sum of the leaving turn rates == own turn rate x "
    "(sum of entering last-segment flows + the origin flow used in that origin's queue update); (4) on "
    "six concrete networks (chain, merge with ramp, bifurcation, crossing, ring, self-loop; 1-3 segments) x "
    "engine: the network-wide balance and every node balance are zero polynomials",
    "explanation": "The balance is an algebraic identity between the function's own inputs and outputs, so no "
    "oracle is needed: the interpreted next-state terms are substituted in the balance and the result is "
    "normalised to a rational function, which must be identically zero.",
    "claim": "Telescoping density update, one-segment shift wiring, turn-rate split summing to the node inflow "
    "and queue update with the same origin flow - on all topology classes; plus the full statement on six "
    "concrete networks containing every node kind.",
    "level_note": "positivity clamps off (as the property states). Not decided: floating-point rounding.",
}


def run(rep: Report) -> None:
    rep.trusted += TRUSTED_WIRE
    prog = rep.prog
    nz0 = PC.prim_normalizer(False)
    # (1) primitive identities
    for impl in ("numpy", "casadi"):
        for n1 in (False, True):
            env = E.Env({"K": n1})
            r = PC.run_prim(prog, impl, "links.step_density", set(), None, n1)
            inst = f"{impl} step_density{' N=1' if n1 else ''}"
            if r.term is None:
                rep.refuted("telescoping-update", inst, r.where, f"raises {r.raised}", key=f"tele|{impl}|raise")
            else:
                bal = E.sub(E.mul(E.mul(E.S("lanes"), E.S("L")), E.sub(r.term, E.V("rho", "K"))),
                            E.mul(E.S("T"), E.sub(E.V("q_up", "K"), E.V("q", "K"))))
                bad = None
                for pos in E.positions(E.shape(bal, env), env):
                    z = nz0.rf(E.at(bal, pos, env))
                    if not z.is_zero():
                        bad = (pos, nz0.show(z))
                rep.check(bad is None, "telescoping-update", inst, r.where,
                          "" if bad is None else f"lanes L (rho+ - rho) - T (q_up - q) = {bad[1][:300]} at {E._fpos(bad[0])}, not 0",
                          key=f"tele|{impl}")
        r = PC.run_prim(prog, impl, "origins.step_queue", set(), None, False)
        if r.term is None:
            rep.refuted("queue-update", f"{impl} step_queue", r.where, f"raises {r.raised}", key=f"queue|{impl}|raise")
        else:
            z = nz0.rf(E.at(E.sub(E.sub(r.term, E.S("w")), E.mul(E.S("T"), E.sub(E.S("d"), E.S("q")))), None, E.Env({})))
            rep.check(z.is_zero(), "queue-update", f"{impl} step_queue", r.where,
                      f"w+ - w - T (d - q) = {nz0.show(z)[:200]}, not 0", key=f"queue|{impl}")

    # (2),(3) wiring lemmas on every topology class
    cks = [ck for ck in wire_results(rep, "base")]
    if not require_no_errors(rep, cks):
        return
    n = 0
    for ck in cks:
        cfg = ck.cfg
        lab = cfg.label()
        ok, detail, where = True, "", "Link.step_dynamics"
        for p in ck.paths:
            if p.raised:
                ok, detail = False, f"stepping raises {p.raised[0]}"
                break
            al = aliasing_event(p)
            if al is not None:
                ok, where = False, al[1]
                detail = (f"{al[2]} - the flow recomputed later from the modified state differs from the flow "
                          "used in the queue update: vehicles are not conserved")
                break
            nz = M.make_normalizer(cfg, with_domain=False)
            env = E.Env(p.n1)
            sd = [pr for pr in p.prims if pr[0] == "LinksEngine.step_density" and pr[3]]
            sq = [pr for pr in p.prims if pr[0] == "OriginsEngine.step_queue" and pr[3]]
            if len(sd) != 1:
                ok, detail = False, f"step_density is evaluated {len(sd)} times for the stepped link"
                break
            a = sd[0][3]
            where = sd[0][2]
            rho, q, q_up = a.get("rho"), a.get("q"), a.get("q_up")
            for nm, want in (("lanes", E.S("SELF.lam")), ("L", E.S("SELF.L")), ("T", E.S("T"))):
                if a.get(nm) != want:
                    ok, detail = False, f"step_density receives {nm} = {_f(a.get(nm))}, not {E.fmt(want)}"
            if not ok:
                break
            v = p.states["SELF"]["states"]["v"][0]
            flow = E.mul(E.mul(rho, v), E.S("SELF.lam"))
            try:
                for pos in E.positions(E.shape(q, env), env):
                    if not nz.rf(E.at(q, pos, env)).equals(nz.rf(E.at(flow, pos, env))):
                        ok, detail = False, f"the outflow q given to step_density at {E._fpos(pos)} is not rho v lam of the link"
                # shift: q_up@i == q@(i-1) ; q_up@first == q0
                sh = E.shape(q_up, env)
                if sh != E.shape(rho, env):
                    ok, detail = False, f"q_up has shape {sh}, the densities {E.shape(rho, env)}"
                    break
                poss = E.positions(sh, env)
                if poss == [None]:
                    q0 = nz.rf(E.at(q_up, None, env))
                else:
                    for pos in poss[1:]:
                        lhs = nz.rf(E.at(q_up, pos, env))
                        rhs = nz.rf(E.at(q, (pos[0], pos[1] - 1), env))
                        if not lhs.equals(rhs):
                            ok, detail = False, f"q_up at {E._fpos(pos)} is not the flow of the segment just upstream"
                    q0 = nz.rf(E.at(q_up, poss[0], env))
            except E.ShapeError as ex:
                ok, detail = False, f"shape error in the flow wiring: {ex}"
                break
            if not ok:
                break
            # (3) node split
            qo = None
            if cfg.has_queue():
                if len(sq) != 1:
                    ok, detail = False, f"step_queue is evaluated {len(sq)} times for the origin"
                    break
                qa = sq[0][3]
                for nm, want in (("T", E.S("T")), ("d", E.S("ORG.d"))):
                    if qa.get(nm) != want:
                        ok, detail, where = False, f"step_queue receives {nm} = {_f(qa.get(nm))}", sq[0][2]
                qo = nz.rf(E.at(qa["q"], None, env))
            elif cfg.u_origin == "Origin":
                qo = nz.rf(E.at(E.idx(flow, 0), None, env))
            if cfg.u_in == 0:
                Q = qo
            elif cfg.u_in == 1:
                uin = "SELF" if getattr(cfg, "selfloop", False) else "UIN"  # (a one-link ring feeds itself)
                fl = E.mul(E.mul(p.states[uin]["states"]["rho"][0], p.states[uin]["states"]["v"][0]), E.S(f"{uin}.lam"))
                Q = nz.rf(E.at(E.idx(fl, -1), None, env))
                if qo is not None:
                    Q = Q + qo
            else:
                fl = E.mul(E.mul(p.states["UIN*"]["states"]["rho"][0], p.states["UIN*"]["states"]["v"][0]), E.S("UIN*.lam"))
                Q = nz.rf(("sumfam", "In(U)", E.at(E.idx(fl, -1), None, env)))
                if qo is not None:
                    Q = Q + qo
            if Q is None:
                ok, detail = False, "no inflow source at the upstream node"
                break
            if cfg.u_out == 1:
                good = q0.equals(Q)
            else:
                sb = nz.rf(("sumfam", "Out(U)", E.S("UOUT*.turnrate")))
                good = (q0 * sb).equals(nz.rf(E.S("SELF.turnrate")) * Q)
            if not good:
                ok = False
                where = "Node.get_upstream_speed_and_flow"
                detail = (f"inflow of the first segment = {nz.show(q0)[:300]} is not (turn rate / sum of leaving turn "
                          f"rates) x (entering flows + origin flow) with total {nz.show(Q)[:300]}")
                break
        n += 1
        rep.check(ok, "conservation-lemmas", lab, where, detail, key=f"lemma|{cfg_class(cfg)}|{cfg.impl}|{detail[:40]}")
    rep.floor("configurations", n, 1000)
    require_fresh_lookups(rep)

    # (4) concrete networks: network-wide and per-node balance as polynomial identities
    for impl in ("casadi", "numpy"):
        for name, gw in B.networks(prog, impl):
            inst = f"{impl}: {name}"
            try:
                B.step(prog, gw)
            except Raised as e:
                rep.refuted("network-balance", inst, "Network.step", f"stepping raises {e.exc}: {e.msg}",
                            key=f"bal|raise|{e.exc}")
                continue
            try:
                tot, nodes = _balances(gw)
            except (E.ShapeError, KeyError, TypeError) as ex:
                rep.refuted("network-balance", inst, "Network.step", f"cannot form the balance: {ex}", key="bal|form")
                continue
            nzb, total = tot
            rep.check(total.is_zero(), "network-balance", inst, "Network.step",
                      f"stored vehicles change by more than T (demand + ideal inflow - destination outflow): "
                      f"residual = {nzb.show(total)[:400]}", key=f"bal|{name.split('(')[0]}|{impl}")
            for nd, res in nodes:
                rep.check(res.is_zero(), "node-balance", f"{inst}: node {nd}", "Node.get_upstream_speed_and_flow",
                          f"flows entering the first segments of the leaving links minus (entering last-segment "
                          f"flows + origin flow) = {nzb.show(res)[:300]}", key=f"node|{name.split('(')[0]}|{nd}|{impl}")
    # a network extended after it was validated and stepped conserves vehicles like one built in one go: mainline first, validated and stepped, then a branch attached to an interior node
    # (CPython caching of the lookups and views, real invalidation) vs. the same network built in one go
    from .. import balance as _B

    _bad = _B.incremental_vs_direct(rep.prog)
    rep.check(not _bad, "construction-history-invariance", "merge network built incrementally (validated and stepped in between) vs in one go",
              "Network.step", "; ".join(_bad[:2]), key="incremental")



def _f(x):
    return E.fmt(x, 80) if E.is_term(x) else repr(x)


def _balances(gw):
    nz = M.make_normalizer(None, with_domain=False)
    links, origins, dests = B.elements(gw)
    T = nz.rf(E.S("T"))
    total = E.rconst(0)
    inflow = {}
    for u, v, l in links:
        rho = B.comps(gw, l.attrs["states"]["rho"], nz)
        rn = B.comps(gw, l.attrs["next_states"]["rho"], nz)
        q = B.flow_comps(gw, l, nz)
        lamL = nz.rf(l.attrs["lam"].t) * nz.rf(l.attrs["L"].t)
        for a, b in zip(rn, rho):
            total = total + lamL * (a - b)
        inflow[l] = (rn[0] - rho[0]) * lamL / T + q[0]
    ext = E.rconst(0)
    qo = {}
    for n, o in origins:
        st = o.attrs.get("states")
        if st:
            w = B.comps(gw, st["w"], nz)[0]
            wn = B.comps(gw, o.attrs["next_states"]["w"], nz)[0]
            d = B.comps(gw, o.attrs["disturbances"]["d"], nz)[0]
            total = total + (wn - w)
            ext = ext + d
            qo[n] = d - (wn - w) / T
        else:
            l = [l for u, v, l in links if u is n][0]
            qo[n] = B.flow_comps(gw, l, nz)[0]
            ext = ext + qo[n]
    for n, dd in dests:
        for u, v, l in links:
            if v is n:
                ext = ext - B.flow_comps(gw, l, nz)[-1]
    res_total = total - T * ext
    nodes = []
    for n in gw.graph.node:
        outs = [l for u, v, l in links if u is n]
        ins = [l for u, v, l in links if v is n]
        if not outs:
            continue
        lhs = E.rconst(0)
        for l in outs:
            lhs = lhs + inflow[l]
        rhs = qo.get(n, E.rconst(0))
        for l in ins:
            rhs = rhs + B.flow_comps(gw, l, nz)[-1]
        nodes.append((n.ident, lhs - rhs))
    return (nz, res_total), nodes
