"""C17 - origin flows respect demand, capacity and space limits; queues stay non-negative."""
from __future__ import annotations

from .. import expr as E
from .. import model as M
from .. import primcheck as PC
from ..core import Report
from ..front import AnalysisError
from ..spec import ptable as P
from .common import require_no_errors, wire_results

META = {
    "level": "proof",
    "technique": "static analysis: sign / upper-bound-set abstract domain over the normal forms of the origin "
    "flow laws of both engines, under the admissible-domain facts",
    "rule": "obligations = per engine x flow law (ramp 'in', ramp 'out', limited simplified ramp, mainstream): "
    "q >= 0; d + w/T in UB(q); C in UB(q) (ramps); q == 0 after substituting rho_first := rho_max (ramps); "
    "w + T (d - q) >= 0 by substituting the proven bound; each limited law's min-tree contains the demand "
    "and the capacity leaf; plus: the origin laws used on every topology class are these primitives with "
    "the origin's own variables (from the interpreted step), and nothing they use is memoised"
    "; every scalar argument of the origin laws is bound to the origin's own variable / the parameter of the link it feeds"
    "; the four origin laws of both engines equal the P-table formulas",
    "explanation": "The flow laws are interpreted from source into terms; inequalities are derived by an "
    "abstract domain (sign of polynomials over facts such as r <= 1, rho_first <= rho_max, rho_crit < rho_max; "
    "upper-bound sets through min / scaling by factors in [0,1]); the queue bound is a ring identity after "
    "substituting the upper bound.",
    "claim": "The stated inequalities for all admissible arguments at once, for every variant and both engines.",
    "level_note": "not claimed (no sound rule in this domain): the mainstream law's bound by the link capacity "
    "flow on its speed-limited arm (a monotonicity fact about v*(-a ln(v/v_free))^(1/a)). Trusted: alias table.",
}

LAWS = [
    ("origins.get_ramp_flow", "in"), ("origins.get_ramp_flow", "out"),
    ("origins.get_simplifiedramp_flow", "limited"), ("origins.get_mainstream_flow", None),
]


def run(rep: Report) -> None:
    prog = rep.prog
    rep.trusted += ["python ast", "alias table numpy/casadi", "admissible-domain facts (DESIGN 1.4)"]
    n = 0
    for impl in ("numpy", "casadi"):
        for prim, typ in LAWS:
            r = PC.run_prim(prog, impl, prim, set(), typ, False)
            inst0 = f"{impl} {prim}{f' [{typ}]' if typ else ''}"
            if r.raised or r.term is None:
                rep.refuted("flow-defined", inst0, r.where, f"raises {r.raised}", key=f"raise|{impl}|{prim}|{typ}")
                continue
            nz = PC.prim_normalizer(True)
            env = E.Env({})
            q = E.at(r.term, None, env)
            F = nz.facts
            n += 1
            # definedness first: a NaN is neither >= 0 nor bounded
            probs = M.definedness(r.term, None, env, nz)
            rep.check(not probs, "flow-defined", inst0, r.where,
                      "" if not probs else f"{probs[0][0]}: `{probs[0][1]}` is not provably in domain (sign {probs[0][2]})",
                      key=f"def|{impl}|{prim}|{typ}")
            s = F.sign(nz.rf(q))
            rep.check(s in M.NONNEG, "flow-nonnegative", inst0, r.where,
                      f"cannot derive q >= 0 (derived sign: {s}) for q = {E.fmt(q, 300)}",
                      key=f"nonneg|{impl}|{prim}|{typ}")
            demand = E.add(E.S("d"), E.div(E.S("w"), E.S("T")))
            okd = M.bounded_by(q, demand, nz)
            rep.check(okd, "flow-le-demand", inst0, r.where,
                      f"d + w/T is not among the derived upper bounds of q = {E.fmt(q, 300)}",
                      key=f"demand|{impl}|{prim}|{typ}")
            if prim != "origins.get_mainstream_flow":
                rep.check(M.bounded_by(q, E.S("C"), nz), "flow-le-capacity", inst0, r.where,
                          f"C is not among the derived upper bounds of q = {E.fmt(q, 300)}",
                          key=f"cap|{impl}|{prim}|{typ}")
                jam = M.subst(q, {E.S("rho_first"): E.S("rho_max")})
                try:
                    z = nz.rf(jam).is_zero()
                    shown = nz.show(nz.rf(jam))[:200]
                except AnalysisError as ex:  # e.g. a denominator that vanishes at rho_first = rho_max
                    z = False
                    shown = f"an undefined value ({ex})"
                rep.check(z, "flow-zero-at-jam", inst0, r.where,
                          f"with rho_first = rho_max the flow normalises to {shown}, not 0",
                          key=f"jam|{impl}|{prim}|{typ}")
            # queue stays non-negative: w + T (d - q) with q replaced by its bound d + w/T
            if okd:
                qn = P.step_queue(E.S("w"), E.S("d"), demand, E.S("T"))
                lb = nz.rf(qn)
                sq = PC.run_prim(prog, impl, "origins.step_queue", set(), None, False)
                ok = lb.is_zero() and sq.term is not None
                detail = ""
                if ok:
                    # the engine's queue update is decreasing in q with slope -T
                    h = E.S("h")
                    t0 = sq.term
                    t1 = M.subst(t0, {E.S("q"): E.add(E.S("q"), h)})
                    slope = nz.rf(E.at(t1, None, env)) - nz.rf(E.at(t0, None, env))
                    ok = slope.equals(nz.rf(E.neg(E.mul(E.S("T"), h))))
                    detail = "" if ok else f"queue update is not w + T (d - q): slope in q is {nz.show(slope)[:120]}"
                    if ok:
                        at_bound = nz.rf(E.at(M.subst(t0, {E.S("q"): demand}), None, env))
                        ok = at_bound.is_zero()
                        detail = "" if ok else f"queue at the maximal flow is {nz.show(at_bound)[:120]}, not 0"
                rep.check(ok, "queue-nonnegative", inst0, sq.where, detail, key=f"queue|{impl}|{prim}|{typ}")
    rep.floor("flow laws analysed", n, 8)
    # the laws are the model's: the bounds above are derived from the shape of each law; what
    # the capacity of a mainstream origin *is* (lanes V(rho_crit) rho_crit) is fixed by the formula
    from . import c01 as _c01

    _c01.run(rep, only_prims=lambda pr: pr.startswith("origins."), only_cfg=lambda cfg: False)
    # ... whichever engine and however they are called (same parameters, same default values)
    from . import c15 as _c15

    _c15.signatures_agree(rep, only_group="origins")
    from .. import ctor

    ctor.check(rep, groups=("origin",))

    # the laws are the ones the element layer uses, with the origin's own variables
    cks = [ck for ck in wire_results(rep, "base") if ck.cfg.has_queue()]
    if not require_no_errors(rep, cks):
        return
    want = {"MainstreamOrigin": "OriginsEngine.get_mainstream_flow", "MeteredOnRamp": "OriginsEngine.get_ramp_flow",
            "SimplifiedMeteredOnRamp": "OriginsEngine.get_simplifiedramp_flow"}
    for ck in cks:
        cfg = ck.cfg
        ok, detail, where = True, "", "origins.py"
        for p in ck.paths:
            for e in p.events:
                if e[0] in ("memoised", "extra-attr-store"):
                    ok, detail, where = False, f"{e[2]}: the flow law may be evaluated on a stale link", e[1]
            calls = [pr for pr in p.prims if pr[0] == want[cfg.u_origin]]
            if not calls and not p.raised:
                ok, detail = False, f"{want[cfg.u_origin]} is never evaluated for the {cfg.u_origin}"
            for name, via, wh, args in calls:
                if not args:
                    continue
                exp = {"d": E.S("ORG.d"), "w": E.S("ORG.w"), "T": E.S("T"), "rho_crit": E.S("SELF.rho_crit")}
                if cfg.u_origin == "MainstreamOrigin":
                    exp.update({"v_ctrl": E.S("ORG.v_ctrl"), "a": E.S("SELF.a"), "v_free": E.S("SELF.v_free"),
                                "lanes": E.S("SELF.lam")})
                else:
                    exp.update({"C": E.S("ORG.C"), "rho_max": E.S("SELF.rho_max")})
                    exp.update({"r": E.S("ORG.r")} if cfg.u_origin == "MeteredOnRamp" else {"qdes": E.S("ORG.q")})
                for k, v in exp.items():
                    a = args.get(k)
                    inner = a
                    if isinstance(a, tuple) and a and a[0] == "max":  # clamped initial queue
                        inner = a[2] if a[1] == E.ZERO else a[1]
                    if inner != v:
                        ok, detail, where = False, f"argument `{k}` of {name} is {E.fmt(a, 80) if E.is_term(a) else a!r}, not {E.fmt(v, 40)} (the origin's own variable / the parameter of the link it feeds)", wh
        rep.check(ok, "law-wired-to-own-variables", cfg.label(), where, detail,
                  key=f"wired|{cfg.u_origin}|{detail[:60]}")
