"""helpers shared by the WIRE/EXPR based checks"""
from __future__ import annotations

from .. import expr as E
from ..core import Report
from ..front import AnalysisError
from ..stepcheck import check_configs, configs_for, flag_configs

TRUSTED_WIRE = [
    "python ast",
    "alias table numpy<->casadi<->canonical (interp.NUMPY_ALIAS / CASADI_ALIAS): library "
    "functions compute element-wise what their documentation says",
    "oracle tables sma/spec/ptable.py and sma/spec/wtable.py (transcription of Hegyi 2004, "
    "eqs. 3.1-3.11, sections 3.2.2 / 3.3.3)",
    "abstraction lemma: the element layer inspects cardinalities only through ==0, ==1, >1, any() "
    "and segment positions only through [0], [-1], [:-1], [1:] (violations are analysis errors)",
    "the seven network lookups used by the element layer equal the graph (that is C08/C09)",
]

_MEMO: dict = {}


def wire_results(rep: Report, which: str = "base", impls=("casadi", "numpy")):
    """All configurations of the tier, interpreted (memoised per process)."""
    key = (rep.prog.root, rep.prog.digest(), rep.tier, which, tuple(impls))
    if key not in _MEMO:
        if which == "base":
            cfgs = configs_for(rep.tier, impls)
        elif which == "flags":
            cfgs = flag_configs(rep.tier, impls)
        else:
            raise ValueError(which)
        _MEMO[key] = check_configs(rep.prog, cfgs)
    return _MEMO[key]


def require_no_errors(rep: Report, cks, allow_kinds=()):
    """Analysis errors in any configuration make the run undecided (fail-closed)."""
    errs = [ck for ck in cks if ck.error]
    if errs:
        seen = set()
        for ck in errs:
            k = ck.error[:160]
            if k in seen:
                continue
            seen.add(k)
            rep.undecided("WIRE-interpret", ck.cfg.label(), "", ck.error[:400])
    return not errs


def cfg_class(cfg) -> str:
    """coarse class of a configuration used in finding keys (no flags / impl)"""
    o = cfg.u_origin or "-"
    return f"U(in={cfg.u_in},origin={o},out={cfg.u_out})/D(in={cfg.d_in},dest={cfg.d_dest or '-'},out={cfg.d_out})"


ELEMENT_LAYER_LOOKUPS = {"nodes_by_link", "origins_by_node", "destinations_by_node", "origins", "destinations"}


def require_fresh_lookups(rep: Report):
    """The element layer reads the network only through these lookups; the abstract
    world models them as the graph itself.  That they equal the graph after any
    construction history is C08's pairing rules, re-checked here for exactly these
    lookups so that the verdict is not conditional on another check."""
    from . import c08

    c08.run(rep, only=ELEMENT_LAYER_LOOKUPS)


# ------------------------------------------------------------ parallel helper
import multiprocessing as _mp
import os as _os

SHARED: dict = {}


def pmap(fn, items, shared=None, jobs=None):
    """map `fn` (a module-level function) over items in forked workers; `shared` is
    visible to the workers as common.SHARED (inherited by fork, not pickled)."""
    global SHARED
    SHARED = shared or {}
    items = list(items)
    jobs = jobs or min(16, _os.cpu_count() or 1)
    if jobs <= 1 or len(items) < 16:
        return [fn(x) for x in items]
    ctx = _mp.get_context("fork")
    with ctx.Pool(jobs) as pool:
        return pool.map(fn, items, chunksize=max(1, len(items) // (jobs * 4)))


def apply_verdicts(rep: Report, verdicts):
    """verdicts: iterable of (ok, rule, instance, construct, detail, key)"""
    for ok, rule, instance, construct, detail, key in verdicts:
        rep.check(ok, rule, instance, construct, detail, key=key)


ALIASING = ("mutates-shared", "mutates-caller-container", "state-dict-aliased", "dtype-cast", "value-set",
            "global-state-store", "value-identity")


def aliasing_event(path):
    """An in-place update of a value that may alias an element state / caller array makes
    every later read of that state see the modified value; the term-level comparison
    (value semantics) is not valid on such a path, and the model's step is not what is
    computed."""
    for e in path.events:
        if e[0] in ALIASING:
            return e
    return None
