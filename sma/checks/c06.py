"""C06 - validation accepts a network exactly when the nine documented conditions hold."""
from __future__ import annotations

import ast
import itertools

from ..core import Report
from ..front import AnalysisError, walk_no_nested
from ..gworld import GWorld
from ..interp import FuncV, Obj, Raised
from ..wire import NET, RAMPS, node_valid
from .c08 import check_view_calls

META = {
    "level": "other",
    "technique": "static analysis: abstract interpretation of Network.is_valid over the exhaustive "
    "finite abstraction of a node's neighbourhood (truth table against the documented conditions)",
    "rule": "obligations = for every valuation (origin kind x destination kind x in-degree 0..3 x out-degree "
    "0..3 x self-loop) of a node whose neighbours are valid: is_valid(raises=False) returns the V-table "
    "verdict, an invalid verdict carries >= 1 message, is_valid(raises=True) raises InvalidNetworkError "
    "exactly when invalid; duplicate-object scenarios; per-node view call shapes"
    "; a second is_valid() on the same network in the same interpreter gives the same verdict (shared mutable defaults / memoisation are modelled)",
    "explanation": "is_valid is interpreted from source (never executed) on concrete graph shapes built in a "
    "model of the DiGraph API; the shapes enumerate the finite abstraction on which every guard of is_valid "
    "and every documented condition depends (all thresholds <= 1, verified), so the comparison is a truth "
    "table, exhaustive for per-node conditions.",
    "claim": "Per-node predicate equivalence with the nine documented conditions over the exact finite "
    "abstraction, raise/return pairing, messages on invalid verdicts; duplicates rule on representative "
    "sharing scenarios.",
    "level_note": "trusted: graph model of networkx (sma/gworld.py), lookups equal the graph (C08). The "
    "iteration-independence of per-node checks is assumed (loop bodies share no state but the message list).",
}

ORIGIN_KINDS = (None, "Origin", "MainstreamOrigin", "MeteredOnRamp", "SimplifiedMeteredOnRamp")
DEST_KINDS = (None, "Destination", "CongestedDestination")


def _max_int_constant(fn: ast.FunctionDef) -> int:
    m = 0
    for n in walk_no_nested(fn):
        if isinstance(n, ast.Compare):
            for c in [n.left] + n.comparators:
                if isinstance(c, ast.Constant) and isinstance(c.value, int) and not isinstance(c.value, bool):
                    m = max(m, c.value)
    return m


def build(prog, okind, dkind, n_in, n_out, selfloop):
    gw = GWorld(prog, "casadi")
    g = gw.graph
    key = gw.consts
    X = gw.node("X")
    g.add_node(X)
    k = 0
    for i in range(n_in):
        A = gw.node(f"A{i}")
        g.add_node(A, **{key["ORIGINENTRY"]: gw.origin(f"OA{i}", "Origin")})
        g.add_edge(A, X, **{key["LINKENTRY"]: gw.link(f"LA{i}")})
    for j in range(n_out):
        B = gw.node(f"B{j}")
        g.add_node(B, **{key["DESTINATIONENTRY"]: gw.dest(f"DB{j}", "Destination")})
        g.add_edge(X, B, **{key["LINKENTRY"]: gw.link(f"LB{j}")})
    if selfloop:
        g.add_edge(X, X, **{key["LINKENTRY"]: gw.link("LS")})
    if okind:
        g.node[X][key["ORIGINENTRY"]] = gw.origin("OX", okind)
    if dkind:
        g.node[X][key["DESTINATIONENTRY"]] = gw.dest("DX", dkind)
    return gw


def card(n):
    return 0 if n == 0 else (1 if n == 1 else "many")


def run_is_valid(prog, gw, raises: bool, it=None):
    it = it or gw.interp()
    fi = prog.function("sym_metanet.network", "Network.is_valid")
    try:
        r = it.call_function(FuncV(fi, gw.net, defcls=NET), [], {"raises": raises})
        return ("return", r, it)
    except Raised as e:
        return ("raise", e, it)


def run(rep: Report) -> None:
    prog = rep.prog
    fi = prog.function("sym_metanet.network", "Network.is_valid")
    rel = prog.modules[fi.module].relpath
    where = f"{rel}:{fi.node.lineno} Network.is_valid"
    rep.trusted += ["python ast", "graph model of networkx.DiGraph (sma/gworld.py)",
                    "V-table = documented conditions 1-9 (sma/wire.py node_valid)"]
    cmax = _max_int_constant(fi.node)
    top = max(3, cmax + 2)
    rep.analysed["max_integer_constant_in_guards"] = cmax
    degs = list(range(0, top + 1))
    loops = (False, True)
    n_val = 0
    for okind, dkind, n_in, n_out, sl in itertools.product(ORIGIN_KINDS, DEST_KINDS, degs, degs, loops):
        if rep.tier == "quick" and sl and (n_in > 1 or n_out > 1):
            continue
        tin, tout = n_in + (1 if sl else 0), n_out + (1 if sl else 0)
        expected = node_valid(okind is not None, okind in RAMPS, dkind is not None, card(tin), card(tout))
        inst = (f"node(origin={okind or '-'}, destination={dkind or '-'}, in={tin}, out={tout}"
                f"{', self-loop' if sl else ''})")
        n_val += 1
        # ---- raises=False
        gw = build(prog, okind, dkind, n_in, n_out, sl)
        kind, r, it = run_is_valid(prog, gw, False)
        if kind == "raise":
            rep.refuted("verdict", inst, where,
                        f"is_valid(raises=False) raises {r.exc} ({r.msg}) instead of returning a verdict",
                        key=f"verdict-raise|{r.exc}")
        else:
            ok_shape = isinstance(r, tuple) and len(r) == 2 and isinstance(r[0], bool) and isinstance(r[1], list)
            if not ok_shape:
                rep.refuted("verdict", inst, where, f"is_valid returned {r!r}, not (bool, messages)",
                            key="verdict-shape")
            else:
                ok, msgs = r
                rep.check(ok == expected, "verdict", inst, where,
                          f"is_valid reports {'valid' if ok else 'invalid'} but the documented conditions "
                          f"say {'valid' if expected else 'invalid'} (messages: {msgs[:2]})",
                          key=f"verdict|{_cls(okind)}|{'d' if dkind else '-'}|in={card(tin)}|out={card(tout)}")
                rep.check(ok or len(msgs) >= 1, "message-on-invalid", inst, where,
                          "invalid verdict without any message", key="nomsg")
                # the verdict is a function of the network: asking again (same process, same
                # network) gives the same answer
                kind2, r2, _ = run_is_valid(prog, gw, False, it=it)
                same = kind2 == "return" and isinstance(r2, tuple) and len(r2) == 2 and r2[0] == ok \
                    and len(r2[1]) == len(msgs)
                rep.check(same, "verdict-repeatable", inst, where,
                          f"a second is_valid() on the same network gives {r2 if kind2 == 'return' else 'raises ' + r2.exc} "
                          f"after {r!r}: validation keeps state between calls", key="repeat")
        # ---- raises=True
        gw = build(prog, okind, dkind, n_in, n_out, sl)
        kind, r, it = run_is_valid(prog, gw, True)
        if expected:
            rep.check(kind == "return", "raises-iff-invalid", inst, where,
                      f"raises {getattr(r, 'exc', '')} on a network the conditions accept",
                      key=f"raise-valid|{_cls(okind)}|{'d' if dkind else '-'}|in={card(tin)}|out={card(tout)}")
        else:
            good = kind == "raise" and r.exc.split(".")[-1] == "InvalidNetworkError"
            rep.check(good, "raises-iff-invalid", inst, where,
                      ("returns instead of raising InvalidNetworkError" if kind == "return"
                       else f"raises {r.exc} instead of InvalidNetworkError"),
                      key=f"noraise|{_cls(okind)}|{'d' if dkind else '-'}|in={card(tin)}|out={card(tout)}")
    rep.analysed["valuations"] = n_val
    rep.floor("node valuations", n_val, 200)

    # ------------------------------------------------------------ duplicates
    for what in ("none", "same-names", "link", "origin", "destination"):
        gw = GWorld(prog, "casadi")
        g, key = gw.graph, gw.consts
        N = [gw.node(f"N{i}") for i in range(4)]
        L1, L2 = gw.link("L1"), gw.link("L2")
        O1, O2 = gw.origin("O1", "Origin"), gw.origin("O2", "MainstreamOrigin")
        D1, D2 = gw.dest("D1"), gw.dest("D2", "CongestedDestination")
        g.add_node(N[0], **{key["ORIGINENTRY"]: O1})
        g.add_node(N[1], **{key["DESTINATIONENTRY"]: D1})
        g.add_node(N[2], **{key["ORIGINENTRY"]: O1 if what == "origin" else O2})
        g.add_node(N[3], **{key["DESTINATIONENTRY"]: D1 if what == "destination" else D2})
        g.add_edge(N[0], N[1], **{key["LINKENTRY"]: L1})
        g.add_edge(N[2], N[3], **{key["LINKENTRY"]: L1 if what == "link" else L2})
        if what == "same-names":
            # distinct objects that merely share a name are not duplicates
            for o_ in (L1, L2, O1, O2, D1, D2):
                o_.attrs["name"] = "X"
        expected = what in ("none", "same-names")
        for raises in (False, True):
            kind, r, it = run_is_valid(prog, gw, raises)
            inst = (f"two disjoint valid chains, distinct elements all named alike, raises={raises}" if what == "same-names"
                    else f"two disjoint valid chains sharing {what} object, raises={raises}")
            if raises:
                good = (kind == "return") if expected else (
                    kind == "raise" and r.exc.split(".")[-1] == "InvalidNetworkError")
            else:
                good = kind == "return" and isinstance(r, tuple) and r[0] == expected and (
                    expected or len(r[1]) >= 1)
            rep.check(good, "duplicates", inst, where,
                      f"expected {'valid' if expected else 'invalid (condition 1)'}; got "
                      f"{kind} {getattr(r, 'exc', r if kind == 'return' else '')}",
                      key=f"dup|{what}|{raises}")
    check_view_calls(rep, prog)
    # (e) the lookups is_valid relies on are fresh after any construction history
    from . import c08

    c08.run(rep, only={"origins", "destinations"})


def _cls(okind):
    if okind is None:
        return "-"
    return "ramp" if okind in RAMPS else "origin"
