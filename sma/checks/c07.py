"""C07 - every network accepted by validation can be stepped and compiled on every
engine; shapes are preserved; outputs are finite on the admissible domain."""
from __future__ import annotations

from .. import expr as E
from .. import model as M
from .. import primcheck as PC
from ..core import Report
from .c08 import check_view_calls
from .common import TRUSTED_WIRE, cfg_class, require_no_errors, wire_results

META = {
    "level": "other",
    "technique": "static analysis: abstract interpretation (None-ness, asserts, shapes, numpy ranks) "
    "over all valid local-topology classes + sign/interval domain for definedness + call-shape binding",
    "rule": "obligations = per valid configuration x engine x initialisation mode: stepping reaches the "
    "end without raise/assert failure/None in arithmetic, each next state has the shape of its state, "
    "numpy rank discipline holds, every element's declared variable groups are initialised, every "
    "division/log/fractional power is in domain under the admissible-domain facts (the model's two "
    "0/0 sites excepted); plus call-shape binding of the per-node views against installed networkx",
    "explanation": "Validity (V-table) enumerates the local topology classes; on each the real "
    "Network.step is interpreted abstractly from source; exceptions the code can raise show up as "
    "abstract raises; definedness is decided by a sign/interval abstract domain on the result terms.",
    "claim": "Decides the structural preconditions of 'valid implies executable': binding of every call, "
    "asserts implied by validity, non-None operands, length/rank agreement, in-domain partial operations.",
    "level_note": "not decided: exceptions raised inside numpy/casadi for other reasons, overflow; "
    "to_function's gather code is covered by C04/C19.",
}

FLOOR_CONFIGS = 1000


def run(rep: Report) -> None:
    rep.trusted += TRUSTED_WIRE
    prog = rep.prog
    check_view_calls(rep, prog)
    cks = wire_results(rep, "base")
    rep.floor("local-topology configurations", len(cks), FLOOR_CONFIGS)
    if not require_no_errors(rep, cks):
        return
    declared = _declared_groups(prog)
    n_def = 0
    for ck in cks:
        cfg = ck.cfg
        lab = cfg.label()
        for p in ck.paths:
            # (b) no raise
            if p.raised is not None:
                rep.refuted("steps-without-raise", lab, p.raised[1],
                            f"stepping a valid network raises {p.raised[0]}: {p.raised[2]}",
                            key=f"raise|{p.raised[0]}|{_fn(p.raised[1])}|{cfg_class(cfg)}")
                continue
            bad_ev = [e for e in p.events if e[0] in (
                "assert-fails", "none-arith", "stop-iteration", "call-shape", "shape-mismatch",
                "engine-state-shared", "class-attr-store", "var-length")]
            if bad_ev:
                e = bad_ev[0]
                rep.refuted("steps-without-raise", lab, e[1], e[2], key=f"{e[0]}|{_fn(e[1])}")
                continue
            rep.holds("steps-without-raise", lab, "Network.step")
            # (c) rank discipline (numpy semantics)
            rk = [e for e in p.events if e[0] in ("rank-store", "rank-index", "rank-reduce")]
            if cfg.impl == "numpy":
                if rk:
                    e = rk[0]
                    rep.refuted("numpy-rank", lab, e[1], e[2], key=f"{e[0]}|{_fn(e[1])}")
                else:
                    rep.holds("numpy-rank", lab, "engines/numpy.py")
            # (c) shapes
            env = E.Env(p.n1)
            ok_shape = True
            for role, outs in p.outputs.items():
                for var, t in outs.items():
                    st = (p.states.get(role, {}).get("states") or {}).get(var)
                    if st is None or not E.is_term(t):
                        continue
                    try:
                        s_new, s_old = E.shape(t, env), E.shape(st[0], env)
                    except E.ShapeError as ex:
                        ok_shape = False
                        rep.refuted("shape-preserved", lab, f"{role}.{var}", str(ex),
                                    key=f"shape|{role}.{var}|{cfg_class(cfg)}")
                        continue
                    if s_new != s_old:
                        ok_shape = False
                        rep.refuted("shape-preserved", lab, f"{role}.{var}",
                                    f"next {var} of {role} has shape {s_new}, the state has {s_old}",
                                    key=f"shape|{role}.{var}|{cfg_class(cfg)}")
            if ok_shape:
                rep.holds("shape-preserved", lab, "next_states")
            # (e) declared groups are initialised; stepped elements have next states
            for role, groups in p.states.items():
                cls = _role_class(cfg, role)
                if cls is None:
                    continue
                for g in ("states", "actions", "disturbances"):
                    if declared[cls]["_" + g] and groups.get(g) is None:
                        rep.refuted("typestate-initialised", f"{lab}: {role}.{g}", cls,
                                    f"class {cls} declares {g} but init_vars leaves `{g}` None: "
                                    "to_function's readiness scan raises",
                                    key=f"typestate|{cls}|{g}")
                if declared[cls]["_states"] and role in ("SELF", "ORG") and role not in p.outputs:
                    rep.refuted("typestate-stepped", f"{lab}: {role}", cls,
                                f"{cls} declares states but Network.step leaves next_states None",
                                key=f"typestate-next|{cls}")
            # (d) definedness (computed by the workers)
            probs = [u for u in ck.undefined if u[0] == p.path]
            n_def += 1
            if probs:
                _, role, var, pos, kind, arg, sign = probs[0]
                rep.refuted("definedness", lab, f"{role}.{var}+ at {pos}",
                            f"{kind}: argument `{arg}` is not provably in domain (sign {sign}) for "
                            "admissible inputs, and it is not one of the model's two 0/0 sites",
                            key=f"def|{kind}|{arg[:80]}")
            else:
                rep.holds("definedness", lab, "next_states")
    rep.analysed["configurations"] = len(cks)
    rep.analysed["definedness_paths"] = n_def

    # (e) after Network.step a valid network compiles at every compactness level
    from .. import compile as CP
    from ..interp import Raised, TV

    ncomp = 0
    for variant in ("merge", "minimal", "bifurcation", "ring", "interleaved"):
        for st in ("SX", "MX"):
            for compact in (0, 1, 2):
                for more_out in (False, True):
                    ncomp += 1
                    label = f"{variant} network, {st}, compact={compact}{', more_out' if more_out else ''}"
                    net = CP.build_network(prog, st, variant=variant, vsl=False)
                    try:
                        CP.run_step(prog, net)
                    except Raised as e:
                        rep.refuted("compiles-after-step", label, "Network.step",
                                    f"stepping the reference network raises {e.exc}: {e.msg}", key=f"cstep|{e.exc}")
                        continue
                    r = CP.to_function(prog, net, compact=compact, more_out=more_out,
                                       other={"T": TV(E.S("T"), 0, False)})
                    if r[0] == "raise":
                        rep.refuted("compiles-after-step", label, "Engine.to_function",
                                    f"to_function raises {r[1].exc}: {r[1].msg}", key=f"ctf|{r[1].exc}|c={compact}")
                    else:
                        rep.holds("compiles-after-step", label, "Engine.to_function")
    rep.floor("compile scenarios", ncomp, 30)
    from .. import ctor

    ctor.check(rep)

    # primitives in isolation with length-1 (rank-1) scalar arguments: numpy ranks
    runs = PC.all_runs(prog, rep.tier, impls=("numpy",), scalar_rank=1)
    for r in runs:
        inst = f"numpy {r.prim} [{r.config}]{' N=1' if r.n1 else ''} with length-1 arguments"
        ev = [e for e in r.events if e[0] in ("rank-store", "rank-index", "rank-reduce")]
        if r.raised is not None:
            rep.refuted("prim-accepts-engine-shapes", inst, r.where, f"raises {r.raised}",
                        key=f"primraise|{r.prim}|{r.config}")
        elif ev:
            rep.refuted("prim-accepts-engine-shapes", inst, ev[0][1], ev[0][2],
                        key=f"primrank|{r.prim}|{ev[0][0]}")
        else:
            rep.holds("prim-accepts-engine-shapes", inst, r.where)


def _fn(where: str) -> str:
    return where.split(" ")[-1] if where else ""


def _role_class(cfg, role):
    if role == "SELF":
        return cfg.link_cls
    if role == "ORG":
        return cfg.u_origin
    if role == "DST":
        return cfg.d_dest
    if role in ("UIN", "UIN*", "UOUT*", "DOUT", "DOUT*", "DIN*"):
        return "LinkWithVsl" if cfg.nbr_vsl else "Link"
    return None


def _declared_groups(prog) -> dict:
    import ast

    out = {}
    for fq, ci in prog.classes.items():
        d = {}
        for g in ("_states", "_actions", "_disturbances"):
            node, _ = prog.lookup_class_attr(fq, g)
            val = False
            if isinstance(node, ast.Set):
                val = len(node.elts) > 0
            elif isinstance(node, (ast.List, ast.Tuple)):
                val = len(node.elts) > 0
            elif isinstance(node, ast.Call):
                val = bool(node.args)
            d[g] = val
        out[ci.name] = d
    return out
