"""C01 - one-step dynamics equal the METANET equations on every valid network."""
from __future__ import annotations

from .. import primcheck as PC
from ..core import Report
from .. import ctor
from .common import aliasing_event, require_fresh_lookups, TRUSTED_WIRE, cfg_class, require_no_errors, wire_results

META = {
    "level": "proof",
    "technique": "static analysis: abstract interpretation of Network.step over local-topology "
    "classes + rational-function normal forms compared with an oracle table",
    "rule": "obligations = (a) every engine primitive x optional-argument/type configuration x engine "
    "equals its P-table formula; (b) every valid local-topology class x option configuration x engine: "
    "each next state (rho+, v+, w+) at each position class equals the W-table term. non-trivial = the "
    "interpreted term comes from /repo source",
    "explanation": "Network.step, the element layer and both engines are interpreted symbolically "
    "from source (never executed) on every valid local topology class; the resulting next-state "
    "terms are compared position-wise, as rational functions over opaque atoms (decided by "
    "cross-multiplication), with the METANET equations written once in sma/spec.",
    "claim": "Every code path the element layer has (finite: topology class x None/flag configuration) "
    "yields exactly the model's next state as a closed-form term; decided for all states and "
    "parameters at once. Numerical behaviour of numpy/casadi is trusted, not decided.",
    "level_note": "trusted base: python ast; alias table; oracle tables in sma/spec (reviewable "
    "transcription of Hegyi 2004); abstraction lemma checked fail-closed; network lookups correct "
    "(C08/C09). Floating-point agreement is not decided.",
}

FLOOR_PRIM_RUNS = 150
FLOOR_CONFIGS = 1000


def run(rep: Report, only_prims=None, only_cfg=None) -> None:
    """only_prims / only_cfg: predicates restricting the primitives / configurations (used by
    the checks of other properties that need the same comparison on a subset)"""
    rep.trusted += TRUSTED_WIRE
    sub = only_prims is not None or only_cfg is not None
    # ---------------------------------------------------------- (a) primitives
    runs = PC.all_runs(rep.prog, rep.tier)
    if only_prims is not None:
        runs = [r for r in runs if only_prims(r.prim)]
    if not sub:
        rep.floor("primitive x configuration x engine runs", len(runs), FLOOR_PRIM_RUNS)
    nz = PC.prim_normalizer(False)
    for r in runs:
        inst = f"{r.impl} {r.prim} [{r.config}]{' N=1' if r.n1 else ''}"
        if r.raised is not None or r.term is None:
            # a primitive that cannot be evaluated in a configuration the interface
            # allows: C07's subject; here it is simply not equal to the formula
            rep.refuted("P-formula", inst, r.where, f"raises: {r.raised}",
                        key=f"P|{r.impl}|{r.prim}|{r.config}")
            continue
        diffs = PC.equal_terms(r.term, PC.spec_term(r.prim, r.args), PC.prim_env(r.prim, r.n1), nz)
        rep.check(
            not diffs, "P-formula", inst, r.where,
            "" if not diffs else
            f"at position {diffs[0][0]}: code = {diffs[0][1][:300]}  |  model = {diffs[0][2][:300]}",
            key=f"P|{r.impl}|{r.prim}|{r.config}",
        )
    # ------------------------------------------------------------- (b) wiring
    cks = wire_results(rep, "base") + wire_results(rep, "flags", impls=("casadi", "numpy"))
    if only_cfg is not None:
        cks = [ck for ck in cks if only_cfg(ck.cfg)]
    if not sub:
        rep.floor("local-topology configurations", len(cks), FLOOR_CONFIGS)
    if not require_no_errors(rep, cks):
        return
    npaths = 0
    for ck in cks:
        cfg = ck.cfg
        npaths += len(ck.paths)
        raised = [p for p in ck.paths if p.raised is not None]
        if raised:
            p = raised[0]
            rep.refuted("W-step", cfg.label(), p.raised[1],
                        f"stepping raises {p.raised[0]}: {p.raised[2]}",
                        key=f"W|raise|{p.raised[0]}|{_fn(p.raised[1])}")
            continue
        al = next((a for a in (aliasing_event(p) for p in ck.paths) if a), None)
        if al is not None:
            rep.refuted("W-step", cfg.label(), al[1],
                        f"{al[2]} - states read later in the same step (e.g. the origin flow recomputed by the "
                        "fed link) see the modified value, so the step is not the model's", key=f"W|alias|{_fn(al[1])}")
            continue
        if ck.mismatches:
            m = ck.mismatches[0]
            rep.refuted(
                "W-step", cfg.label(), f"{m[1]}.{m[2]}+ at {m[3]}",
                f"next {m[2]} of {m[1]} at position {m[3]} differs from the model: "
                f"code = {m[4][:400]}  |  model = {m[5][:400]}",
                key=f"W|{m[1]}.{m[2]}|{m[3]}|{cfg_class(cfg)}|{cfg.impl}",
            )
        else:
            rep.holds("W-step", cfg.label(), "Network.step")
    if sub:
        return
    rep.analysed["configurations"] = len(cks)
    rep.analysed["symbolic_paths"] = npaths
    require_fresh_lookups(rep)
    # the abstract worlds build elements from their slots: constructors must fill them
    ctor.check(rep)

    rep.analysed["primitive_runs"] = len(runs)


def _fn(where: str) -> str:
    return where.split(" ")[-1] if where else ""
