"""C08 - name and membership lookups always reflect the current network.

Decided by the facet effect rules R1-R7 of DESIGN.md (section C08) + SIG on the
per-node view calls.
"""
from __future__ import annotations

import ast

from ..core import Report
from ..effects import (
    DICT_MUTATORS,
    GRAPHOBJ,
    NX_WRITE_TABLE,
    NetModel,
    derive_nx_effects,
    enclosing_loops,
    parent,
    set_parents,
)
from ..front import AnalysisError, dotted_name, short, text, walk_no_nested
from .. import sigs

META = {
    "level": "other",
    "rule": "obligations = (mutator, cached lookup) pairs whose facet sets meet (R1), "
    "graph-write sites (R2), cached-read/write orderings inside mutators (R3), "
    "stores into cached lookups (R4), decorator paths (R5), view getters (R6), "
    "view call shapes (SIG); non-trivial = instantiated on a construct of /repo",
    "explanation": "Effect analysis over graph facets: every cached lookup's transitive "
    "facet read set is derived from its getter, every method's may-write set from the "
    "networkx mutators it calls; the rules pair writers and cached readers for all "
    "read-mutate-read histories at once.",
}

# confirmed by hand on the tree (vacuity floors)
FLOOR_CACHED = 9
FLOOR_MUTATORS = 6
FLOOR_PAIRS = 14


def run(rep: Report) -> None:
    prog = rep.prog
    nm = NetModel(prog)
    rel = nm.mi.relpath
    rep.trusted += [
        "python ast",
        "networkx documented semantics of add_node/add_edge/... (hand table; "
        "re-derived from installed source in thorough tier)",
        "functools.cached_property stores its value in instance __dict__[attrname]",
    ]
    rep.assumptions.append(
        "callers mutate the graph only through the Network construction API"
    )

    def where(fi, node=None):
        ln = getattr(node, "lineno", fi.node.lineno) if node is not None else fi.node.lineno
        return f"{rel}:{ln} {fi.qualname}"

    # --------------------------------------------------------------- reads
    reads = {}
    for p in nm.cached:
        reads[p] = nm.reads(p)
    rep.analysed["cached_lookups"] = {p: sorted(r) for p, r in reads.items()}
    rep.floor("cached lookups", len(nm.cached), FLOOR_CACHED)

    mutators = {m: e for m, e in nm.effects.items() if e.writes}
    rep.analysed["mutators"] = {
        m: sorted(set().union(*[w.facets for w in e.writes])) for m, e in mutators.items()
    }
    rep.analysed["invalidation_lists"] = {
        m: e.invalidates for m, e in nm.effects.items() if e.invalidates is not None
    }
    rep.floor("methods with direct graph writes", len(mutators), FLOOR_MUTATORS)

    # -------------------------------------------------- R1 coverage (+R2)
    npairs = 0
    for m, e in sorted(mutators.items()):
        if m == "__init__":
            continue
        inval = set(e.invalidates or [])
        for p, rset in sorted(reads.items()):
            hit = [w for w in e.writes if w.facets & rset]
            if not hit:
                continue
            npairs += 1
            w = hit[0]
            shared = sorted(w.facets & rset)
            ok = p in inval
            rep.check(
                ok,
                "R1-coverage",
                f"mutator {m} -> cached {p}",
                where(e.fi, w.node),
                f"`{m}` may write facet(s) {shared} via `{w.desc}`; cached lookup "
                f"`{p}` reads {sorted(rset)}; `{p}` is not in the invalidation list "
                f"{sorted(inval) if e.invalidates is not None else '(method is undecorated)'}",
                key=f"R1|{m}|{p}",
            )
    rep.floor("(mutator, cached lookup) pairs", npairs, FLOOR_PAIRS)

    # R2: graph writes from outside the Network class
    nsites = 0
    for mi in prog.modules.values():
        for n in ast.walk(mi.tree):
            if isinstance(n, ast.Call) and isinstance(n.func, ast.Attribute):
                if n.func.attr in NX_WRITE_TABLE and n.func.attr not in ("update", "clear"):
                    chain = dotted_name(n.func.value) or ""
                    parts = chain.split(".")
                    if any(x in ("_graph", "graph", "G", "asgraph") for x in parts):
                        nsites += 1
                        inside = _inside_class(mi, n, "Network") and parts[0] == "self"
                        rep.check(
                            inside,
                            "R2-confinement",
                            f"graph write {short(n, 60)}",
                            f"{mi.relpath}:{n.lineno}",
                            "graph mutated outside the Network construction methods",
                            key=f"R2|{mi.name}|{short(n, 60)}",
                        )
    rep.analysed["graph_write_sites"] = nsites

    # ------------------------------------ R3 no re-population before a write
    for m, e in sorted(nm.effects.items()):
        if not e.writes:
            continue
        for p, rn in e.cached_reads:
            rset = reads.get(p, set())
            if rset == {GRAPHOBJ} or not rset:
                continue  # live views cannot go stale
            for w in e.writes:
                if not (w.facets & rset):
                    continue
                before = (rn.lineno, rn.col_offset) < w.pos
                shared_loop = bool(
                    set(map(id, enclosing_loops(rn))) & set(map(id, enclosing_loops(w.node)))
                )
                bad = before or shared_loop
                rep.check(
                    not bad,
                    "R3-no-repopulation",
                    f"{m}: read of cached {p} vs write `{w.desc}`",
                    where(e.fi, rn),
                    f"`{m}` reads cached `{p}` (re-populating it after the decorator "
                    f"dropped it) and afterwards writes facet(s) {sorted(w.facets & rset)}",
                    key=f"R3|{m}|{p}",
                )
    # mutator calling an undecorated helper that writes is covered by R1 on the helper

    # ------------------------------------------- R4 no hand-maintained cache
    n_r4 = 0
    for m, e in sorted(nm.effects.items()):
        for p, n, how in e.cache_stores:
            n_r4 += 1
            rep.refuted(
                "R4-no-hand-cache",
                f"{m} stores into cached {p} ({how})",
                where(e.fi, n),
                f"`{short(parent(n) if isinstance(n, ast.Subscript) else n, 80)}` writes the "
                f"value of cached lookup `{p}` by hand; a mutator may only invalidate",
                key=f"R4|{m}|{p}",
            )
    # stores from other modules: <net>.<cached>[...] = / .update(...)
    cached_nonview = {p for p in nm.cached if reads[p] != {GRAPHOBJ}}
    for mi in prog.modules.values():
        for n in ast.walk(mi.tree):
            tgt = None
            if isinstance(n, ast.Subscript) and isinstance(n.ctx, (ast.Store, ast.Del)):
                tgt = n.value
            elif (
                isinstance(n, ast.Call)
                and isinstance(n.func, ast.Attribute)
                and n.func.attr in DICT_MUTATORS
            ):
                tgt = n.func.value
            if tgt is None:
                continue
            cur = tgt
            while isinstance(cur, ast.Subscript):
                cur = cur.value
            if (
                isinstance(cur, ast.Attribute)
                and cur.attr in cached_nonview
                and isinstance(cur.value, ast.Name)
                and cur.value.id in ("net", "network")
            ):
                n_r4 += 1
                rep.refuted(
                    "R4-no-hand-cache",
                    f"store into cached {cur.attr} from {mi.name}",
                    f"{mi.relpath}:{n.lineno}",
                    f"`{short(n, 80)}` mutates the value of a cached lookup",
                    key=f"R4|{mi.name}|{cur.attr}",
                )
    if n_r4 == 0:
        rep.holds(
            "R4-no-hand-cache",
            f"no store/update/del into any of {len(cached_nonview)} cached lookups "
            f"in {len(prog.modules)} modules",
            rel,
        )

    # ---------------------------------------- R5 the decorator does its job
    _check_decorator(rep, prog)
    # R5d: decoration sites name cached lookups of the same class defined earlier
    for m, e in sorted(nm.effects.items()):
        if e.invalidates is None:
            continue
        for nme in e.invalidates:
            fi = nm.cached.get(nme)
            ok = fi is not None and fi.node.lineno < e.fi.node.lineno
            rep.check(
                ok,
                "R5d-decoration-args",
                f"{m}: invalidate_cache({nme})",
                where(e.fi, e.dec_node),
                f"`{nme}` is not a cached lookup of Network defined before `{m}`",
                key=f"R5d|{m}|{nme}",
            )

    # ----------------------------------------------- R6 views and _graph
    for p in sorted(nm.cached):
        if nm._is_view(p):
            rep.check(
                reads[p] == {GRAPHOBJ},
                "R6-live-view",
                f"cached view {p}",
                where(nm.cached[p]),
                f"cached view `{p}` reads facets {sorted(reads[p])}, not only the graph object",
                key=f"R6|{p}",
            )
    stores = []
    for name, fi in nm.ci.methods.items():
        for n in ast.walk(fi.node):
            if (
                isinstance(n, ast.Attribute)
                and isinstance(n.ctx, (ast.Store, ast.Del))
                and n.attr == "_graph"
            ):
                stores.append((name, n))
    rep.check(
        all(nme == "__init__" for nme, _ in stores) and len(stores) >= 1,
        "R6-graph-identity",
        "`_graph` assigned only in __init__",
        rel,
        f"_graph is rebound in {[n for n, _ in stores if n != '__init__']}: cached views "
        "would keep pointing at the old graph",
        key="R6|_graph",
    )

    # -------------------------------------- R7 uncached lookups stay uncached
    # (a lookup that became cached shows up in R1 with its read set; here we only
    #  record what was analysed)
    rep.analysed["uncached_properties"] = sorted(nm.props)

    # ---------------------------------------------- SIG on the view wrappers
    check_view_calls(rep, prog)

    # --------------------------------------------------- thorough: networkx
    if rep.tier == "thorough":
        for meth, hand in sorted(NX_WRITE_TABLE.items()):
            if meth in ("update", "clear", "clear_edges", "add_weighted_edges_from"):
                continue
            der = derive_nx_effects(meth)
            if der is None:
                rep.undecided("NX-effects", meth, "", "method not found in networkx source")
                continue
            der = nm.expand(der) - nm.all_attr_facets()
            hand2 = nm.expand(hand) - nm.all_attr_facets()
            rep.check(
                der <= hand2,
                "NX-effects",
                f"networkx DiGraph.{meth}: derived stores {sorted(der)} within table {sorted(hand2)}",
                "networkx/classes/digraph.py",
                f"installed networkx `{meth}` writes {sorted(der)}, hand table says {sorted(hand2)}",
                key=f"NX|{meth}",
            )


def _inside_class(mi, node, clsname: str) -> bool:
    ci = mi.classes.get(clsname)
    if ci is None:
        return False
    return (
        ci.node.lineno <= node.lineno <= max(
            getattr(n, "end_lineno", ci.node.lineno) for n in [ci.node]
        )
    )


# ------------------------------------------------------------------- R5
def _check_decorator(rep: Report, prog) -> None:
    mi = prog.module("sym_metanet.util.funcs")
    fi = prog.function("sym_metanet.util.funcs", "invalidate_cache")
    rel = mi.relpath
    fn = fi.node
    set_parents(fn)
    # (c) classification: every cached_property among the callables is collected
    coll_name = None
    for n in ast.walk(fn):
        if (
            isinstance(n, ast.If)
            and isinstance(n.test, ast.Call)
            and dotted_name(n.test.func) == "isinstance"
            and len(n.test.args) == 2
            and dotted_name(n.test.args[1]) == "cached_property"
        ):
            for s in n.body:
                if (
                    isinstance(s, ast.Expr)
                    and isinstance(s.value, ast.Call)
                    and isinstance(s.value.func, ast.Attribute)
                    and s.value.func.attr == "append"
                    and dotted_name(s.value.args[0]) == dotted_name(n.test.args[0])
                ):
                    loop = parent(n)
                    if (
                        isinstance(loop, ast.For)
                        and dotted_name(loop.iter) == (fn.args.vararg.arg if fn.args.vararg else None)
                        and dotted_name(loop.target) == dotted_name(n.test.args[0])
                    ):
                        coll_name = dotted_name(s.value.func.value)
    rep.check(
        coll_name is not None,
        "R5c-collect",
        "every cached_property passed to invalidate_cache is collected",
        f"{rel}:{fn.lineno} invalidate_cache",
        "could not find `for p in callables: if isinstance(p, cached_property): <list>.append(p)`",
        key="R5c",
    )
    if coll_name is None:
        return
    # other mutations of the collection (slicing it away, popping) are not allowed
    for n in ast.walk(fn):
        if isinstance(n, ast.Assign):
            for t in n.targets:
                if dotted_name(t) == coll_name and not (
                    isinstance(n.value, ast.List) and not n.value.elts
                ):
                    rep.refuted(
                        "R5c-collect",
                        f"collection `{coll_name}` reassigned",
                        f"{rel}:{n.lineno} invalidate_cache",
                        short(n),
                        key="R5c|reassign",
                    )
        if (
            isinstance(n, ast.Call)
            and isinstance(n.func, ast.Attribute)
            and dotted_name(n.func.value) == coll_name
            and n.func.attr in ("pop", "remove", "clear", "insert")
        ):
            rep.refuted(
                "R5c-collect",
                f"collection `{coll_name}` mutated",
                f"{rel}:{n.lineno} invalidate_cache",
                short(n),
                key="R5c|mutate",
            )

    # length variable(s): N = len(coll)
    len_vars = set()
    for n in ast.walk(fn):
        if (
            isinstance(n, ast.Assign)
            and isinstance(n.value, ast.Call)
            and dotted_name(n.value.func) == "len"
            and dotted_name(n.value.args[0]) == coll_name
        ):
            for t in n.targets:
                if isinstance(t, ast.Name):
                    len_vars.add(t.id)

    # (b) every definition of the invalidator deletes __dict__[prop.attrname] for
    #     every collected prop
    inv_defs = []
    wrapper = None
    for n in ast.walk(fn):
        if isinstance(n, ast.FunctionDef) and n is not fn:
            if _deletes_dict_entry(n):
                inv_defs.append(n)
            if any(
                isinstance(c, ast.Call) and _is_star_call(c) for c in ast.walk(n)
            ) and any(
                isinstance(d, ast.Call) and dotted_name(d.func) == "wraps"
                for d in n.decorator_list
            ):
                wrapper = n
    rep.floor("invalidator definitions in invalidate_cache", len(inv_defs), 1)
    inv_names = {d.name for d in inv_defs}
    for d in inv_defs:
        ok, why = _invalidator_covers_all(d, coll_name, len_vars, fn)
        rep.check(
            ok,
            "R5b-invalidator",
            f"invalidator `{d.name}` (line arm {d.lineno - fn.lineno}) deletes every collected property",
            f"{rel}:{d.lineno} invalidate_cache.{d.name}",
            why,
            key=f"R5b|{_arm_key(d)}",
        )
    # (a) order in wrapper: invalidation precedes func(*args, **kwargs) on every path
    if wrapper is None:
        rep.refuted(
            "R5a-order",
            "wrapper not found",
            f"{rel}:{fn.lineno} invalidate_cache",
            "no @wraps-decorated inner function calling func(*args, **kwargs)",
            key="R5a|nowrapper",
        )
        return
    set_parents(wrapper)
    func_calls = [c for c in ast.walk(wrapper) if isinstance(c, ast.Call) and _is_star_call(c)]
    inv_calls = [
        c
        for c in ast.walk(wrapper)
        if isinstance(c, ast.Call) and dotted_name(c.func) in inv_names
    ]
    ok = bool(func_calls) and bool(inv_calls)
    why = ""
    if not ok:
        why = "wrapper does not call both the invalidator and the wrapped function"
    else:
        fc = min(func_calls, key=lambda c: (c.lineno, c.col_offset))
        for ic in inv_calls:
            if (ic.lineno, ic.col_offset) > (fc.lineno, fc.col_offset):
                ok, why = False, "the invalidator is called after the wrapped function"
        # the invalidator call must receive args[0] and be guarded only by
        # `<invalidator> is not None` / `args`
        for ic in inv_calls:
            if not (len(ic.args) == 1 and text(ic.args[0]) == "args[0]"):
                ok, why = False, f"invalidator called with {text(ic)} rather than args[0]"
            g = ic
            while g is not wrapper:
                p = parent(g)
                if isinstance(p, ast.If) and g in p.body:
                    for atom in _conj_atoms(p.test):
                        t = text(atom)
                        if t not in (f"{dotted_name(ic.func)} is not None", "args"):
                            ok, why = False, f"invalidation guarded by `{t}`"
                elif isinstance(p, ast.If) and g in p.orelse:
                    ok, why = False, "invalidation in an else branch"
                elif isinstance(p, (ast.For, ast.While, ast.Try)):
                    ok, why = False, f"invalidation inside {type(p).__name__}"
                g = p
        # the wrapped call must not be inside a branch that skips invalidation:
        # both are required to be top-level statements (or if-guarded invalidation)
        g = fc
        while g is not wrapper:
            p = parent(g)
            if isinstance(p, (ast.If, ast.For, ast.While)):
                ok, why = False, "wrapped function call is conditional"
            g = p
    rep.check(
        ok,
        "R5a-order",
        "wrapper invalidates (args[0]) before calling the wrapped method on every path",
        f"{rel}:{wrapper.lineno} invalidate_cache.wrapper",
        why,
        key="R5a",
    )
    # the arms must be selected by exhaustive tests on the length
    # (Ncp == 0 -> None ; Ncp == 1 -> single ; else -> loop) : a None arm for Ncp != 0
    for n in ast.walk(fn):
        if isinstance(n, ast.If) and isinstance(n.test, ast.Compare):
            l = n.test.left
            if isinstance(l, ast.Name) and l.id in len_vars:
                for s in n.body:
                    if (
                        isinstance(s, ast.Assign)
                        and any(dotted_name(t) in inv_names for t in s.targets)
                        and isinstance(s.value, ast.Constant)
                        and s.value.value is None
                    ):
                        ok0 = (
                            isinstance(n.test.ops[0], ast.Eq)
                            and isinstance(n.test.comparators[0], ast.Constant)
                            and n.test.comparators[0].value == 0
                        )
                        rep.check(
                            ok0,
                            "R5b-invalidator",
                            "no-op arm selected only when no cached property was passed",
                            f"{rel}:{n.lineno} invalidate_cache",
                            f"invalidator disabled under `{text(n.test)}`",
                            key="R5b|noop-arm",
                        )


def _arm_key(d: ast.FunctionDef) -> str:
    return "loop" if any(isinstance(x, ast.For) for x in ast.walk(d)) else "single"


def _is_star_call(c: ast.Call) -> bool:
    return (
        isinstance(c.func, ast.Name)
        and c.func.id == "func"
        and any(isinstance(a, ast.Starred) for a in c.args)
    )


def _conj_atoms(t: ast.AST):
    if isinstance(t, ast.BoolOp) and isinstance(t.op, ast.And):
        for v in t.values:
            yield from _conj_atoms(v)
    else:
        yield t


def _deletes_dict_entry(fn: ast.FunctionDef) -> bool:
    for n in ast.walk(fn):
        if isinstance(n, ast.Delete):
            for t in n.targets:
                if isinstance(t, ast.Subscript) and (dotted_name(t.value) or "").endswith("__dict__"):
                    return True
        if (
            isinstance(n, ast.Call)
            and isinstance(n.func, ast.Attribute)
            and n.func.attr == "pop"
            and (dotted_name(n.func.value) or "").endswith("__dict__")
        ):
            return True
    return False


def _invalidator_covers_all(d: ast.FunctionDef, coll: str, len_vars: set, outer) -> tuple:
    """The deleted key must be `<prop>.attrname` where <prop> ranges over the whole
    collection: a for-loop over `coll`, or `coll[0]` in the arm where len == 1."""
    set_parents(d)
    selfname = d.args.args[0].arg if d.args.args else None
    dels = []
    for n in ast.walk(d):
        if isinstance(n, ast.Delete):
            for t in n.targets:
                if isinstance(t, ast.Subscript) and dotted_name(t.value) == f"{selfname}.__dict__":
                    dels.append((n, t.slice))
        if (
            isinstance(n, ast.Call)
            and isinstance(n.func, ast.Attribute)
            and n.func.attr == "pop"
            and dotted_name(n.func.value) == f"{selfname}.__dict__"
        ):
            dels.append((n, n.args[0]))
    if not dels:
        return False, "no deletion from the instance __dict__"
    for stmt, key in dels:
        # resolve key -> `<prop>.attrname`
        kexpr = key
        if isinstance(kexpr, ast.Name):
            kexpr = _local_def(d, kexpr.id) or kexpr
        if not (isinstance(kexpr, ast.Attribute) and kexpr.attr == "attrname"):
            return False, f"deleted key `{text(key)}` is not a cached property's attrname"
        prop = kexpr.value
        if not isinstance(prop, ast.Name):
            return False, f"unrecognised property expression `{text(prop)}`"
        # loop variable over the whole collection?
        loop = None
        g = stmt
        while g is not d:
            g = parent(g)
            if isinstance(g, ast.For) and dotted_name(g.target) == prop.id:
                loop = g
                break
        if loop is not None:
            if dotted_name(loop.iter) != coll:
                return False, f"loop ranges over `{text(loop.iter)}`, not all of `{coll}`"
            # deletion may only be guarded by the membership test of the same key
            g = stmt
            while g is not loop:
                p = parent(g)
                if isinstance(p, ast.If):
                    t = text(p.test)
                    if t != f"{text(key)} in {selfname}.__dict__":
                        return False, f"deletion guarded by `{t}`"
                    if g not in p.body:
                        return False, "deletion in else branch"
                elif isinstance(p, (ast.Try,)):
                    pass
                g = p
            for n in ast.walk(loop):
                if isinstance(n, (ast.Break, ast.Continue, ast.Return)):
                    return False, "loop may skip properties (break/continue/return)"
            continue
        # single arm: prop = coll[0] defined in the enclosing scope under len == 1
        definition = None
        arm = None
        for n in ast.walk(outer):
            if isinstance(n, ast.Assign) and any(dotted_name(t) == prop.id for t in n.targets):
                if n.lineno < d.lineno:
                    definition, arm = n, parent(n)
        if definition is None:
            return False, f"`{prop.id}` is not bound to an element of `{coll}`"
        v = definition.value
        if not (
            isinstance(v, ast.Subscript)
            and dotted_name(v.value) == coll
            and isinstance(v.slice, (ast.Constant, ast.UnaryOp))
        ):
            return False, f"`{prop.id} = {text(v)}` is not an element of `{coll}`"
        # must sit in an arm where len(coll) == 1
        g = definition
        found = False
        while g is not outer:
            p = parent(g)
            if isinstance(p, ast.If) and isinstance(p.test, ast.Compare):
                t = p.test
                if (
                    isinstance(t.left, ast.Name)
                    and t.left.id in len_vars
                    and isinstance(t.ops[0], ast.Eq)
                    and isinstance(t.comparators[0], ast.Constant)
                    and t.comparators[0].value == 1
                    and g in p.body
                ):
                    found = True
            g = p
        if not found:
            return False, "single-property invalidator used outside the `len == 1` arm"
        g = stmt
        while g is not d:
            p = parent(g)
            if isinstance(p, ast.If):
                t = text(p.test)
                if t != f"{text(key)} in {selfname}.__dict__":
                    return False, f"deletion guarded by `{t}`"
            g = p
    return True, ""


def _local_def(fn: ast.FunctionDef, name: str):
    for n in ast.walk(fn):
        if isinstance(n, ast.Assign) and any(dotted_name(t) == name for t in n.targets):
            return n.value
    return None


# ------------------------------------------------------------------ SIG
def check_view_calls(rep: Report, prog) -> int:
    """`super().__call__(...)` / `super().__getitem__` in views.py must bind to the
    installed networkx signatures; per-node view calls in the package must bind to
    the wrappers' own __call__."""
    mi = prog.module("sym_metanet.views")
    n_sites = 0
    for cname, ci in mi.classes.items():
        ext = [b for b in ci.ext_bases if b.startswith("networkx")]
        if not ext:
            continue
        base = ext[0]
        modname, _, bcls = base.rpartition(".")
        # nx.classes.reportviews.OutEdgeView -> networkx.classes.reportviews
        for mname, fi in ci.methods.items():
            for n in ast.walk(fi.node):
                if (
                    isinstance(n, ast.Call)
                    and isinstance(n.func, ast.Attribute)
                    and isinstance(n.func.value, ast.Call)
                    and dotted_name(n.func.value.func) == "super"
                ):
                    n_sites += 1
                    callee, where = sigs.ext_method(modname, bcls, n.func.attr)
                    if callee is None:
                        rep.undecided(
                            "SIG-view",
                            f"{cname}.{mname}: super().{n.func.attr}",
                            f"{mi.relpath}:{n.lineno}",
                            f"cannot resolve {base}.{n.func.attr}",
                        )
                        continue
                    b = sigs.bind(n, sigs.sig_of(callee, drop_first=True))
                    rep.check(
                        b.ok,
                        "SIG-view",
                        f"{cname}.{mname}: `{short(n, 60)}` binds to {where}",
                        f"{mi.relpath}:{n.lineno} {cname}.{mname}",
                        f"call shape does not bind to installed {where}"
                        f"({text(callee.args)}): {b.reason}",
                        key=f"SIG-view|{cname}.{mname}|super().{n.func.attr}",
                    )
    rep.floor("super() call sites in views.py", n_sites, 4)
    # per-node calls net.in_links(x) / net.out_links(x) across the package
    wrappers = {c: ci for c, ci in mi.classes.items() if "__call__" in ci.methods}
    sig_by_prop = {}
    nmi = prog.module("sym_metanet.network")
    netci = nmi.classes["Network"]
    for pname, fi in netci.methods.items():
        ra = fi.node.returns
        rn = dotted_name(ra) if ra is not None else None
        if rn in wrappers and fi.is_property():
            sig_by_prop[pname] = (rn, sigs.sig_of(wrappers[rn].methods["__call__"].node, True))
    ncalls = 0
    for m in prog.modules.values():
        for n in ast.walk(m.tree):
            if (
                isinstance(n, ast.Call)
                and isinstance(n.func, ast.Attribute)
                and n.func.attr in sig_by_prop
                and isinstance(n.func.value, ast.Name)
                and n.func.value.id in ("self", "net")
            ):
                if n.func.value.id == "self" and m.name != "sym_metanet.network":
                    continue
                ncalls += 1
                wn, sg = sig_by_prop[n.func.attr]
                b = sigs.bind(n, sg)
                rep.check(
                    b.ok,
                    "SIG-view-call",
                    f"`{short(n, 50)}` binds to {wn}.__call__",
                    f"{m.relpath}:{n.lineno}",
                    b.reason,
                    key=f"SIG-view-call|{m.name}|{short(n, 50)}",
                )
    rep.floor("per-node view call sites", ncalls, 12)
    rep.analysed["view_call_sites"] = ncalls
    return n_sites
