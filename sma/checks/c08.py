"""C08 - name and membership lookups always reflect the current network.

Decided by the facet effect rules R1-R7 of DESIGN.md (section C08) + SIG on the
per-node view calls.
"""
from __future__ import annotations

import ast

from ..core import Report
from ..effects import (
    DICT_MUTATORS,
    GRAPHOBJ,
    NX_WRITE_TABLE,
    NetModel,
    derive_nx_effects,
    enclosing_loops,
    parent,
    set_parents,
)
from ..front import AnalysisError, dotted_name, short, text, walk_no_nested
from .. import sigs

META = {
    "level": "other",
    "rule": "obligations = (mutator, cached lookup) pairs whose facet sets meet (R1), "
    "graph-write sites (R2), cached-read/write orderings inside mutators (R3), "
    "stores into cached lookups (R4), decorator paths (R5), view getters (R6), "
    "view call shapes (SIG); non-trivial = instantiated on a construct of /repo"
    "; H: every history of 2 (quick) / 4 (thorough) construction calls over a small universe, through the interpreted caches and invalidating wrappers, every lookup and every link view (whole, per node, subscript, len, membership) compared with the graph after each call; graph writes of private helpers count for their callers",
    "explanation": "Effect analysis over graph facets: every cached lookup's transitive "
    "facet read set is derived from its getter, every method's may-write set from the "
    "networkx mutators it calls; the rules pair writers and cached readers for all "
    "read-mutate-read histories at once.",
}

# confirmed by hand on the tree (vacuity floors)
FLOOR_CACHED = 9
FLOOR_MUTATORS = 6
FLOOR_PAIRS = 14


def run(rep: Report, only=None) -> None:
    """only: restrict the pairing rules to these cached lookups (used by the checks of
    properties that *depend* on fresh lookups, e.g. validation)."""
    prog = rep.prog
    nm = NetModel(prog)
    rel = nm.mi.relpath
    rep.trusted += [
        "python ast",
        "networkx documented semantics of add_node/add_edge/... (hand table; "
        "re-derived from installed source in thorough tier)",
        "functools.cached_property stores its value in instance __dict__[attrname]",
    ]
    rep.assumptions.append(
        "callers mutate the graph only through the Network construction API"
    )

    def where(fi, node=None):
        ln = getattr(node, "lineno", fi.node.lineno) if node is not None else fi.node.lineno
        return f"{rel}:{ln} {fi.qualname}"

    # --------------------------------------------------------------- reads
    reads = {}
    for p in nm.cached:
        reads[p] = nm.reads(p)
    if only is not None:
        missing = set(only) - set(nm.cached) - set(nm.props)
        if missing:
            raise AnalysisError(f"anchor vanished: Network lookups {sorted(missing)}")
        reads_all = reads
        reads = {p: r for p, r in reads.items() if p in only}
    rep.analysed["cached_lookups"] = {p: sorted(r) for p, r in reads.items()}
    if only is None:
        rep.floor("cached lookups", len(nm.cached), FLOOR_CACHED)

    mutators = {m: e for m, e in nm.effects.items() if e.writes and not e.helper}
    rep.analysed["mutators"] = {
        m: sorted(set().union(*[w.facets for w in e.writes])) for m, e in mutators.items()
    }
    rep.analysed["invalidation_lists"] = {
        m: e.invalidates for m, e in nm.effects.items() if e.invalidates is not None
    }
    if only is None:
        rep.floor("methods with direct graph writes", len(mutators), FLOOR_MUTATORS)

    # -------------------------------------------------- R1 coverage (+R2)
    npairs = 0
    for m, e in sorted(mutators.items()):
        if m == "__init__":
            continue
        inval = set(e.invalidates or [])
        for p, rset in sorted(reads.items()):
            hit = [w for w in e.writes if w.facets & rset]
            if not hit:
                continue
            npairs += 1
            w = hit[0]
            shared = sorted(w.facets & rset)
            ok = p in inval
            rep.check(
                ok,
                "R1-coverage",
                f"mutator {m} -> cached {p}",
                where(e.fi, w.node),
                f"`{m}` may write facet(s) {shared} via `{w.desc}`; cached lookup "
                f"`{p}` reads {sorted(rset)}; `{p}` is not in the invalidation list "
                f"{sorted(inval) if e.invalidates is not None else '(method is undecorated)'}",
                key=f"R1|{m}|{p}",
            )
    if only is None:
        rep.floor("(mutator, cached lookup) pairs", npairs, FLOOR_PAIRS)
    else:
        rep.floor("(mutator, cached lookup) pairs for the lookups this property relies on", npairs, 2)

    # R2: graph writes from outside the Network class
    nsites = 0
    for mi in prog.modules.values():
        for n in ast.walk(mi.tree):
            if isinstance(n, ast.Call) and isinstance(n.func, ast.Attribute):
                if n.func.attr in NX_WRITE_TABLE and n.func.attr not in ("update", "clear"):
                    chain = dotted_name(n.func.value) or ""
                    parts = chain.split(".")
                    if any(x in ("_graph", "graph", "G", "asgraph") for x in parts):
                        nsites += 1
                        inside = _inside_class(mi, n, "Network") and parts[0] == "self"
                        rep.check(
                            inside,
                            "R2-confinement",
                            f"graph write {short(n, 60)}",
                            f"{mi.relpath}:{n.lineno}",
                            "graph mutated outside the Network construction methods",
                            key=f"R2|{mi.name}|{short(n, 60)}",
                        )
    rep.analysed["graph_write_sites"] = nsites

    # ------------------------------------ R3 no re-population before a write
    for m, e in sorted(nm.effects.items()):
        if not e.writes:
            continue
        for p, rn in e.cached_reads:
            rset = reads.get(p, set())
            if rset == {GRAPHOBJ} or not rset:
                continue  # live views cannot go stale
            for w in e.writes:
                if not (w.facets & rset):
                    continue
                before = (rn.lineno, rn.col_offset) < w.pos
                shared_loop = bool(
                    set(map(id, enclosing_loops(rn))) & set(map(id, enclosing_loops(w.node)))
                )
                bad = before or shared_loop
                rep.check(
                    not bad,
                    "R3-no-repopulation",
                    f"{m}: read of cached {p} vs write `{w.desc}`",
                    where(e.fi, rn),
                    f"`{m}` reads cached `{p}` (re-populating it after the decorator "
                    f"dropped it) and afterwards writes facet(s) {sorted(w.facets & rset)}",
                    key=f"R3|{m}|{p}",
                )
    # mutator calling an undecorated helper that writes is covered by R1 on the helper

    # ------------------------------------------- R4 no hand-maintained cache
    n_r4 = 0
    for m, e in sorted(nm.effects.items()):
        for p, n, how in e.cache_stores:
            n_r4 += 1
            rep.refuted(
                "R4-no-hand-cache",
                f"{m} stores into cached {p} ({how})",
                where(e.fi, n),
                f"`{short(parent(n) if isinstance(n, ast.Subscript) else n, 80)}` writes the "
                f"value of cached lookup `{p}` by hand; a mutator may only invalidate",
                key=f"R4|{m}|{p}",
            )
    # stores from other modules: <net>.<cached>[...] = / .update(...)
    cached_nonview = {p for p in reads if reads[p] != {GRAPHOBJ}}
    for mi in prog.modules.values():
        for n in ast.walk(mi.tree):
            tgt = None
            if isinstance(n, ast.Subscript) and isinstance(n.ctx, (ast.Store, ast.Del)):
                tgt = n.value
            elif (
                isinstance(n, ast.Call)
                and isinstance(n.func, ast.Attribute)
                and n.func.attr in DICT_MUTATORS
            ):
                tgt = n.func.value
            if tgt is None:
                continue
            cur = tgt
            while isinstance(cur, ast.Subscript):
                cur = cur.value
            if (
                isinstance(cur, ast.Attribute)
                and cur.attr in cached_nonview
                and isinstance(cur.value, ast.Name)
                and cur.value.id in ("net", "network")
            ):
                n_r4 += 1
                rep.refuted(
                    "R4-no-hand-cache",
                    f"store into cached {cur.attr} from {mi.name}",
                    f"{mi.relpath}:{n.lineno}",
                    f"`{short(n, 80)}` mutates the value of a cached lookup",
                    key=f"R4|{mi.name}|{cur.attr}",
                )
    if n_r4 == 0:
        rep.holds(
            "R4-no-hand-cache",
            f"no store/update/del into any of {len(cached_nonview)} cached lookups "
            f"in {len(prog.modules)} modules",
            rel,
        )

    # ---------------------------------------- R5 the decorator does its job
    _check_decorator(rep, prog)
    if only is not None:
        return
    # R5d: decoration sites name cached lookups of the same class defined earlier
    for m, e in sorted(nm.effects.items()):
        if e.invalidates is None:
            continue
        for nme in e.invalidates:
            fi = nm.cached.get(nme)
            ok = fi is not None and fi.node.lineno < e.fi.node.lineno
            rep.check(
                ok,
                "R5d-decoration-args",
                f"{m}: invalidate_cache({nme})",
                where(e.fi, e.dec_node),
                f"`{nme}` is not a cached lookup of Network defined before `{m}`",
                key=f"R5d|{m}|{nme}",
            )

    # ----------------------------------------------- R6 views and _graph
    for p in sorted(nm.cached):
        if nm._is_view(p):
            rep.check(
                reads[p] == {GRAPHOBJ},
                "R6-live-view",
                f"cached view {p}",
                where(nm.cached[p]),
                f"cached view `{p}` reads facets {sorted(reads[p])}, not only the graph object",
                key=f"R6|{p}",
            )
    stores = []
    every = [(name, fi) for c in prog.mro(nm.ci.fq) if prog.classes[c].module == nm.mi.name
             for name, fi in prog.classes[c].methods.items()]  # (incl. repository base classes)
    for name, fi in every:
        for n in ast.walk(fi.node):
            if (
                isinstance(n, ast.Attribute)
                and isinstance(n.ctx, (ast.Store, ast.Del))
                and n.attr == "_graph"
            ):
                stores.append((name, n))
    rep.check(
        all(nme == "__init__" for nme, _ in stores) and len(stores) >= 1,
        "R6-graph-identity",
        "`_graph` assigned only in __init__",
        rel,
        f"_graph is rebound in {[n for n, _ in stores if n != '__init__']}: cached views "
        "would keep pointing at the old graph",
        key="R6|_graph",
    )

    # -------------------------------------- R7 uncached lookups stay uncached
    # (a lookup that became cached shows up in R1 with its read set; here we only
    #  record what was analysed)
    rep.analysed["uncached_properties"] = sorted(nm.props)

    # ------------------------------- H: bounded exploration of histories (second opinion)
    # Every sequence of construction calls up to the bound, over a small universe, with all
    # lookups read (hence cached) before each call: after each call every lookup, read
    # through the caches and the real invalidating wrappers, equals its recomputation.
    from .. import histories as H

    import itertools as _it

    from . import common as _common

    length = 4 if rep.tier == "thorough" else 2
    nh = 0
    seen_bad = set()
    seqs = list(_it.product(range(H.n_operations(prog)), repeat=length))
    for labels, bad in _common.pmap(_history_one, seqs, shared={"prog": prog}):
        nh += 1
        if bad is None:
            continue
        if bad[0] == "analysis":
            rep.undecided("H-history", " ; ".join(labels), rel, bad[1])
            continue
        key = (bad[0], labels[-1])
        if key in seen_bad:
            continue
        seen_bad.add(key)
        rep.refuted("H-history", " ; ".join(labels), f"{rel} Network.{labels[-1].split('(')[0]}", bad[1],
                    key=f"H|{bad[0]}|{labels[-1].split('(')[0]}")
    if not seen_bad:
        rep.holds("H-history", f"all {nh} histories of {length} construction calls over a universe of 3 nodes, "
                               "2 links, 2 origins, 3 destinations (incl. replacing, name clashes, failing bulk calls)", rel)
    rep.analysed["histories_explored"] = nh
    rep.floor("histories explored", nh, 200)

    # ---------------------------------------------- SIG on the view wrappers
    check_view_calls(rep, prog)

    # --------------------------------------------------- thorough: networkx
    if rep.tier == "thorough":
        for meth, hand in sorted(NX_WRITE_TABLE.items()):
            if meth in ("update", "clear", "clear_edges", "add_weighted_edges_from"):
                continue
            der = derive_nx_effects(meth)
            if der is None:
                rep.undecided("NX-effects", meth, "", "method not found in networkx source")
                continue
            der = nm.expand(der) - nm.all_attr_facets()
            hand2 = nm.expand(hand) - nm.all_attr_facets()
            rep.check(
                der <= hand2,
                "NX-effects",
                f"networkx DiGraph.{meth}: derived stores {sorted(der)} within table {sorted(hand2)}",
                "networkx/classes/digraph.py",
                f"installed networkx `{meth}` writes {sorted(der)}, hand table says {sorted(hand2)}",
                key=f"NX|{meth}",
            )


def _inside_class(mi, node, clsname: str) -> bool:
    ci = mi.classes.get(clsname)
    if ci is None:
        return False
    return (
        ci.node.lineno <= node.lineno <= max(
            getattr(n, "end_lineno", ci.node.lineno) for n in [ci.node]
        )
    )


# ------------------------------------------------------------------- R5
def _check_decorator(rep: Report, prog) -> None:
    """Interpret `invalidate_cache` abstractly: for k = 1..3 cached properties, every
    subset of them being present in the instance __dict__, a wrapped method that returns
    or raises, and two successive calls of the same decorated method: the wrapped method
    is called exactly once per call with the caller's arguments, its result is returned,
    and when the call is over (normally or not) none of the k entries is left."""
    import itertools

    from ..interp import Builtin, FuncV, Interp, Obj, Raised
    from ..primcheck import PrimWorld

    fi = prog.function("sym_metanet.util.funcs", "invalidate_cache")
    mi = prog.module("sym_metanet.util.funcs")
    where = f"{mi.relpath}:{fi.node.lineno} invalidate_cache"

    class Recorder:
        def __init__(self):
            self.calls = []

    class DW(PrimWorld):
        def __init__(self):
            super().__init__(False)
            self.rec = Recorder()
            self.inst = None

        def isinstance_ext(self, it, o, k, node):
            return k.name.endswith("cached_property") and isinstance(o, Obj) and o.kind == "cachedprop"

        def call_value(self, it, f, args, kwargs, node):
            if isinstance(f, Recorder):
                f.calls.append((tuple(args), dict(kwargs), dict(self.inst.attrs["__dict__"])))
                if getattr(self, "raising", False):
                    raise Raised("WrappedMethodError", node, it.stack[-1].fi if it.stack else None, "wrapped method fails")
                return "RESULT"
            return NotImplemented

        def call_ext(self, it, name, args, kwargs, node):
            if name.endswith("functools.wraps") or name == "functools.wraps":
                return Builtin("<wraps>")
            return NotImplemented

        def on_container_mutation(self, it, c, node, how):
            return None

    n = 0
    for k in (1, 2, 3):
        names = [f"prop{i}" for i in range(k)]
        for present in itertools.chain.from_iterable(itertools.combinations(names, r) for r in range(k + 1)):
            for raising in (False, True):
                n += 1
                w = DW()
                w.raising = raising
                it = Interp(prog, w)
                # inside a class body the decorator runs before `__set_name__` has given the
                # cached properties their attribute name
                props = [Obj("functools:cached_property", nm, {"attrname": None}, kind="cachedprop") for nm in names]
                inst = Obj("sym_metanet.network:Network", "instance", {}, kind="instance")
                inst.attrs["__dict__"] = {nm: f"cached-{nm}" for nm in present}
                inst.attrs["__dict__"]["_graph"] = "graph"
                w.inst = inst
                label = (f"{k} cached propert{'y' if k == 1 else 'ies'}, present before the call: "
                         f"{list(present) or 'none'}{', the wrapped method raises' if raising else ''}")
                try:
                    deco = it.call_function(FuncV(fi), props, {})
                    wrapper = it.call(deco, [w.rec], {}, fi.node, None)
                    for pr in props:
                        pr.attrs["attrname"] = pr.ident  # the class is now complete
                except Raised as e:
                    rep.refuted("R5-decorator", label, where,
                                f"building the invalidating wrapper raises {e.exc} ({e.msg})", key=f"R5|raise|{e.exc}")
                    continue
                ok, why = True, ""
                # the same decorated method is called twice (the decorator's closure state
                # must not wear out), the cache being re-populated in between
                for call_no in (1, 2):
                    if call_no == 2:
                        inst.attrs["__dict__"].update({nm: f"cached-{nm}" for nm in present})
                    res, exc = None, None
                    try:
                        res = it.call(wrapper, [inst, "a1"], {"kw": "v"}, fi.node, None)
                    except Raised as e:
                        exc = e
                    calls = w.rec.calls
                    if exc is not None and not (raising and exc.exc == "WrappedMethodError"):
                        ok, why = False, f"the invalidating wrapper raises {exc.exc} ({exc.msg})"
                        break
                    if len(calls) != call_no:
                        ok, why = False, f"wrapped method called {len(calls)} times after {call_no} call(s)"
                        break
                    a, kw, snap = calls[-1]
                    left = [nm for nm in names if nm in inst.attrs["__dict__"]]
                    if left:
                        ok = False
                        why = (f"call {call_no}: cached entr{'y' if len(left) == 1 else 'ies'} {left} survive the "
                               f"{'failed ' if raising else ''}call of the mutating method")
                        break
                    if a != (inst, "a1") or kw != {"kw": "v"}:
                        ok, why = False, "arguments are not forwarded unchanged"
                        break
                    if inst.attrs["__dict__"].get("_graph") != "graph":
                        ok, why = False, "unrelated instance state removed"
                        break
                    if not raising and res != "RESULT":
                        ok, why = False, "the wrapped method's result is not returned"
                        break
                rep.check(ok, "R5-decorator", label, where, why,
                          key=f"R5|k={k}|present={','.join(present) or '-'}|raising={raising}")
    rep.floor("decorator scenarios", n, 14)


def _history_one(seq):
    from .. import histories as H
    from . import common as _common

    try:
        return H.explore_one(_common.SHARED["prog"], seq)
    except AnalysisError as e:
        return ([f"history {seq}"], ("analysis", f"ANALYSIS-ERROR {e}"))


# ------------------------------------------------------------------ SIG
def check_view_calls(rep: Report, prog) -> int:
    """`super().__call__(...)` / `super().__getitem__` in views.py must bind to the
    installed networkx signatures; per-node view calls in the package must bind to
    the wrappers' own __call__."""
    mi = prog.module("sym_metanet.views")
    n_sites = 0

    def nx_bases_of(ci, seen=()):
        """installed-networkx base classes that `super()` inside class `ci` can resolve to:
        its own external bases, or - for a mixin - those of the classes that inherit from it"""
        out = [b for b in ci.ext_bases if b.startswith("networkx")]
        if out:
            return out
        for other in mi.classes.values():
            if ci.fq in other.bases and other.fq not in seen:
                out += nx_bases_of(other, seen + (ci.fq,))
        return out

    for cname, ci in mi.classes.items():
        exts = sorted(set(nx_bases_of(ci)))
        if not exts:
            continue
        for mname, fi in ci.methods.items():
            for n in ast.walk(fi.node):
                if not (
                    isinstance(n, ast.Call)
                    and isinstance(n.func, ast.Attribute)
                    and isinstance(n.func.value, ast.Call)
                    and dotted_name(n.func.value.func) == "super"
                ):
                    continue
                for base in exts:
                    modname, _, bcls = base.rpartition(".")
                    n_sites += 1
                    callee, where = sigs.ext_method(modname, bcls, n.func.attr)
                    if callee is None:
                        rep.undecided(
                            "SIG-view",
                            f"{cname}.{mname}: super().{n.func.attr}",
                            f"{mi.relpath}:{n.lineno}",
                            f"cannot resolve {base}.{n.func.attr}",
                        )
                        continue
                    b = sigs.bind(n, sigs.sig_of(callee, drop_first=True))
                    rep.check(
                        b.ok,
                        "SIG-view",
                        f"{cname}.{mname}: `{short(n, 60)}` binds to {where}",
                        f"{mi.relpath}:{n.lineno} {cname}.{mname}",
                        f"call shape does not bind to installed {where}"
                        f"({text(callee.args)}): {b.reason}",
                        key=f"SIG-view|{cname}.{mname}|super().{n.func.attr}|{bcls}",
                    )
    n_view_classes = sum(1 for ci in mi.classes.values() if nx_bases_of(ci))
    rep.floor("edge-view classes in views.py", n_view_classes, 2)
    # per-node calls net.in_links(x) / net.out_links(x) across the package
    wrappers = {c: ci for c, ci in mi.classes.items() if prog.lookup_method(ci.fq, "__call__") is not None}
    sig_by_prop = {}
    nmi = prog.module("sym_metanet.network")
    netci = nmi.classes["Network"]
    net_methods: dict = {}
    for c in prog.mro(netci.fq):  # (the class may be split into base classes)
        for pname, fi in prog.classes[c].methods.items():
            net_methods.setdefault(pname, fi)
    for pname, fi in net_methods.items():
        ra = fi.node.returns
        rn = dotted_name(ra) if ra is not None else None
        if rn in wrappers and fi.is_property():
            sig_by_prop[pname] = (rn, sigs.sig_of(prog.lookup_method(wrappers[rn].fq, "__call__").node, True))
    ncalls = 0
    for m in prog.modules.values():
        for n in ast.walk(m.tree):
            if (
                isinstance(n, ast.Call)
                and isinstance(n.func, ast.Attribute)
                and n.func.attr in sig_by_prop
                and isinstance(n.func.value, ast.Name)
                and n.func.value.id in ("self", "net")
            ):
                if n.func.value.id == "self" and m.name != "sym_metanet.network":
                    continue
                ncalls += 1
                wn, sg = sig_by_prop[n.func.attr]
                b = sigs.bind(n, sg)
                rep.check(
                    b.ok,
                    "SIG-view-call",
                    f"`{short(n, 50)}` binds to {wn}.__call__",
                    f"{m.relpath}:{n.lineno}",
                    b.reason,
                    key=f"SIG-view-call|{m.name}|{short(n, 50)}",
                )
    rep.floor("per-node view call sites", ncalls, 4)
    rep.analysed["view_call_sites"] = ncalls
    return n_sites
