"""C04 - function arguments/results follow the network's element order at every level."""
from __future__ import annotations

import itertools

from .. import compile as CP
from .. import expr as E
from .. import model as M
from ..core import Report
from ..front import AnalysisError
from ..interp import TV

META = {
    "level": "other",
    "technique": "static analysis: abstract interpretation of to_function and its gather helpers on a "
    "concrete multi-element network; layout compared component-wise with the documented concatenation",
    "rule": "obligations = per (symbol type SX/MX) x (compact 0/1/2) x (parameters given?) x (initial clamps?) x "
    "(duplicate element names?): arguments are exactly the state/action/disturbance components once each, in "
    "group order x,u,d then parameters in declared order; each result component is the successor of the "
    "state component at the same flat position; flat order = documented concatenation in the network's "
    "element enumeration; names and values have equal length; no option allows free symbols"
    " the order of an element's variables is the same whether the engine creates them, the caller supplies all of them (in another key order) or only some; a compilation after an earlier one (with the extra outputs) has the signature of a fresh one; a 12-segment link with clamped initial states (entry names stop sorting like indices); the sampling time declared as a symbolic parameter; constructor conformance for links"
    "; after the real init_vars every element has exactly the documented variables; a declared parameter with two entries",
    "explanation": "Engine.to_function, _filter_vars, _gather_inputs/_gather_outputs, "
    "_add_parameters_to_inputs and the Network enumeration properties are interpreted from source on a "
    "network with three links (one with VSL, one single-segment), three origins and a congested destination "
    "whose in-edge and out-edge iteration orders differ; every input/output is flattened to its scalar "
    "components and compared with the layout the documentation prescribes.",
    "claim": "Decides the layout for this representative network at every option combination: completeness "
    "of arguments, x/u/d/p order, positional successor alignment (so results can be fed back), and the "
    "relation between the three compactness levels.",
    "level_note": "trusted: the small CasADi model in sma/compile.py (isinstance, n_dep, size1, symvar, vcat); "
    "CasADi's own rejection of free symbols. One network shape, chosen so that element kinds repeat and "
    "edge orders differ; the gather code has no topology-dependent branches (checked: it only iterates dicts).",
}


def expected_flat(net, compact):
    """documented layout, as lists of (var, element, position) per group"""
    w = net.w
    E_order = net.links + net.origins + net.dests
    groups = {"x": "states", "u": "actions", "d": "disturbances"}
    out = {}
    for g, attr in groups.items():
        per_el = []
        for el in E_order:
            d = el.attrs.get(attr)
            if d is None:
                continue
            for var, tv in d.items():
                per_el.append((el, var, tv))
        if compact <= 0:
            seq = per_el
            parts = [[x] for x in per_el]
        else:
            names = []
            for _, var, _ in per_el:
                if var not in names:
                    names.append(var)
            seq = [x for nm in names for x in per_el if x[1] == nm]
            if compact == 1:
                parts = [[x for x in per_el if x[1] == nm] for nm in names]
            else:
                parts = [seq]
        out[g] = (seq, parts)
    return out


def comps_of(w, tv, nz):
    """components of a state symbol (possibly wrapped in max(0, .)): identities"""
    t = tv.t
    if t[0] == "max":
        t = t[2] if t[1] == E.ZERO else t[1]
    ids = [CP.ident_of(r, nz) for r in CP.flatten(w, TV(t, 1), nz)]
    return ids


def run(rep: Report, only_params: bool = False, only_variant=None) -> None:
    prog = rep.prog
    rel = prog.module("sym_metanet.engines.casadi").relpath
    fi = prog.function("sym_metanet.engines.casadi", "Engine.to_function")
    where = f"{rel}:{fi.node.lineno} Engine.to_function"
    rep.trusted += ["python ast", "CasADi API model in sma/compile.py", "graph model in sma/gworld.py"]
    # the analysis worlds build elements from their slots: the constructors must store
    # every argument, symbolic or not, in the slot the dynamics read
    from .. import ctor as _ctor

    if not only_params and not only_variant:
        _ctor.check(rep, groups=("link", "vsl"))
    combos = []
    for st in ("SX", "MX"):
        for compact in (0, 1, 2):
            for params in (False, True):
                for clamp in (False, True):
                    for same in (False, True):
                        if rep.tier == "quick" and (clamp and same):
                            continue
                        combos.append((st, compact, params, clamp, same))
    # compact levels outside {0,1,2} follow the documented <=0 / ==1 / >1 classes
    combos += [("SX", -1, True, False, False), ("SX", 5, True, False, False)]
    if only_params:
        combos = [c for c in combos if c[2] and not c[3] and not c[4]]
    combos = [c + ("merge",) for c in combos]
    if not only_params:
        for variant in ("minimal", "bifurcation"):
            for st in ("SX", "MX"):
                for compact in (0, 1, 2):
                    combos.append((st, compact, compact == 1, False, False, variant))
        for st in ("SX", "MX"):
            for compact in (0, 2):
                combos.append((st, compact, False, True, False, "long"))
            for compact in (1, 2):
                combos.append((st, compact, False, False, False, "interleaved"))
                combos.append((st, compact, False, False, False, "ring"))
    if only_variant:
        ov = (only_variant,) if isinstance(only_variant, str) else tuple(only_variant)
        combos = [c for c in combos if c[5] in ov and (c[5] == "long" or (not c[2] and not c[4]))]
    n = 0
    for st, compact, params, clamp, same, variant in combos:
        n += 1
        label = (f"{st} compact={compact}{' parameters' if params else ''}"
                 f"{' clamped-initial-states' if clamp else ''}{' duplicate-element-names' if same else ''}"
                 f"{'' if variant == 'merge' else ' network=' + variant}")
        net = CP.build_network(prog, st, same_names=same, variant=variant)
        CP.set_opaque_states(net, clamp_init=clamp)
        w = net.w
        # declared in a non-alphabetical order
        pdict = None
        pnames = ["rho_crit", "a", "v_free"]
        if params:
            pdict = {k: TV(E.S(f"p.{k}"), 1, False) for k in pnames}
        pdict_before = dict(pdict) if pdict is not None else None
        r = CP.to_function(prog, net, compact=compact, more_out=False, parameters=pdict,
                           other={"T": TV(E.S("T"), 0, False)})
        if params and variant == "merge" and not clamp and not same:
            # the flow-output path also receives the declared parameters
            net2 = CP.build_network(prog, st, same_names=same, variant=variant)
            CP.set_opaque_states(net2, clamp_init=clamp)
            pd2 = {k: TV(E.S(f"p.{k}"), 1, False) for k in pnames}
            r2 = CP.to_function(prog, net2, compact=compact, more_out=True, parameters=pd2,
                                other={"T": TV(E.S("T"), 0, False), "tau": TV(E.S("tau"), 0, False)})
            ev = [e for e in r2[-1].events if e.kind in ("mutates-caller-container", "mutates-shared")]
            same_dict = list(pd2) == pnames
            rep.check(not ev and same_dict, "declared-parameters-untouched", label + " more_out", where,
                      (ev[0].detail if ev else f"the caller's parameter dict now has keys {list(pd2)}"),
                      key=f"paramdict|c={min(max(compact, 0), 2)}")
            # a declared parameter need not be a scalar (e.g. one symbol for the capacities of two ramps)
            net5 = CP.build_network(prog, st, same_names=same, variant=variant)
            CP.set_opaque_states(net5, clamp_init=clamp)
            pd5 = {"C": TV(E.vcat(E.S("p.C0"), E.S("p.C1")), 1, False), "rho_crit": TV(E.S("p.rho_crit"), 1, False)}
            r5 = CP.to_function(prog, net5, compact=compact, more_out=False, parameters=pd5,
                                other={"T": TV(E.S("T"), 0, False)})
            if r5[0] == "raise":
                rep.refuted("vector-parameter", label + " with a 2-entry parameter", where,
                            f"to_function raises {r5[1].exc}: {r5[1].msg}", key=f"vecpar|raise|c={min(max(compact, 0), 2)}")
            else:
                nz5 = M.make_normalizer(None)
                try:
                    ids5 = [CP.ident_of(x, nz5) for a in r5[2] for x in CP.flatten(net5.w, a, nz5)]
                except (AnalysisError, E.ShapeError):
                    ids5 = []
                okv = sum(1 for c in ids5 if c is not None and c[1] == "p" and str(c[0]).startswith("C")) == 2
                rep.check(okv, "vector-parameter", label + " with a 2-entry parameter", where,
                          "the two entries of the declared parameter are not both arguments of the function",
                          key=f"vecpar|c={min(max(compact, 0), 2)}")
            # a step parameter (the sampling time) may be declared symbolic just like an element parameter
            net3 = CP.build_network(prog, st, same_names=same, variant=variant)
            CP.set_opaque_states(net3, clamp_init=clamp)
            pd3 = {"T": TV(E.S("p.T"), 0, False), "rho_crit": TV(E.S("p.rho_crit"), 1, False)}
            r3 = CP.to_function(prog, net3, compact=compact, more_out=True, parameters=pd3,
                                other={"tau": TV(E.S("tau"), 0, False)})
            if r3[0] == "raise":
                rep.refuted("symbolic-step-parameter", label + " more_out, T declared", where,
                            f"to_function raises {r3[1].exc}: {r3[1].msg}", key=f"symT|raise|c={min(max(compact, 0), 2)}")
            else:
                nz3 = M.make_normalizer(None)
                try:
                    ids3 = [CP.ident_of(x, nz3) for a in r3[2] for x in CP.flatten(net3.w, a, nz3)]
                except (AnalysisError, E.ShapeError) as e:
                    ids3 = None
                has_in = ids3 is not None and any(c is not None and c[0] == "T" and c[1] == "p" for c in ids3)
                rep.check(has_in, "symbolic-step-parameter", label + " more_out, T declared", where,
                          "the declared sampling time is not an argument of the function",
                          key=f"symT|c={min(max(compact, 0), 2)}")
        if r[0] == "raise":
            rep.refuted("compiles", label, where, f"to_function raises {r[1].exc}: {r[1].msg}",
                        key=f"raise|{r[1].exc}|c={min(max(compact, 0), 2)}")
            continue
        _, names_in, args_in, names_out, args_out, opts, it = r
        if variant == "merge" and params and not clamp and not same:
            # an empty dict of parameters is "no parameters"
            net6 = CP.build_network(prog, st, variant=variant)
            CP.set_opaque_states(net6)
            r6 = CP.to_function(prog, net6, compact=compact, more_out=False, parameters={},
                                other={"T": TV(E.S("T"), 0, False)})
            net6b = CP.build_network(prog, st, variant=variant)
            CP.set_opaque_states(net6b)
            base6 = CP.to_function(prog, net6b, compact=compact, more_out=False, other={"T": TV(E.S("T"), 0, False)})
            if r6[0] == "function" and base6[0] == "function":
                rep.check(list(r6[1]) == list(base6[1]) and len(r6[2]) == len(base6[2]), "empty-parameters", label, where,
                          f"with parameters={{}} the function takes {list(r6[1])} instead of {list(base6[1])}",
                          key=f"emptypar|c={min(max(compact, 0), 2)}")
            else:
                rep.refuted("empty-parameters", label, where, f"with parameters={{}} to_function raises {r6[1].exc}",
                            key=f"emptypar|raise|c={min(max(compact, 0), 2)}")
        if variant == "merge" and not params and not clamp and not same:
            # compiling is repeatable: an earlier compilation in the same process (with the
            # extra outputs) leaves nothing behind that changes the next one
            net4 = CP.build_network(prog, st, variant=variant)
            CP.set_opaque_states(net4)
            it4 = net4.w.interp()
            oth = {"T": TV(E.S("T"), 0, False), "tau": TV(E.S("tau"), 0, False)}
            ra = CP.to_function(prog, net4, compact=compact, more_out=True, other=oth, it=it4)
            rb = CP.to_function(prog, net4, compact=compact, more_out=False, other={"T": oth["T"]}, it=it4)
            if ra[0] == "raise" or rb[0] == "raise":
                bad_r = ra if ra[0] == "raise" else rb
                rep.refuted("compilation-repeatable", label, where,
                            f"a second compilation raises {bad_r[1].exc}: {bad_r[1].msg}", key=f"repeat|raise|c={compact}")
            else:
                same_sig = (list(rb[1]) == list(names_in) and list(rb[3]) == list(names_out)
                            and len(rb[2]) == len(args_in) and len(rb[4]) == len(args_out))
                rep.check(same_sig, "compilation-repeatable", label, where,
                          f"after a compilation with more_out the same network compiles to inputs {list(rb[1])} / "
                          f"outputs {list(rb[3])} ({len(rb[4])} values) instead of {list(names_in)} / {list(names_out)} "
                          f"({len(args_out)} values)", key=f"repeat|c={compact}")
        nz = M.make_normalizer(None)
        cl = min(max(compact, 0), 2)
        key = f"{st}|c={cl}|p={params}|clamp={clamp}|same={same}|{variant}"
        try:
            in_flat = [[CP.ident_of(x, nz) for x in CP.flatten(w, a, nz)] for a in args_in]
            out_flat = [[CP.ident_of(x, nz) for x in CP.flatten(w, a, nz)] for a in args_out]
        except (AnalysisError, E.ShapeError) as e:
            rep.undecided("layout", label, where, f"cannot flatten an argument: {e}")
            continue
        exp = expected_flat(net, cl)
        exp_in_parts = []
        for g in ("x", "u", "d"):
            for part in exp[g][1]:
                exp_in_parts.append([c for (el, var, tv) in part for c in comps_of(w, tv, nz)])
        if params:
            if cl == 0:
                exp_in_parts += [[(k, "p", 0)] for k in pnames]
            else:
                exp_in_parts.append([(k, "p", 0) for k in pnames])
        got_seq = [c for part in in_flat for c in part]
        exp_seq = [c for part in exp_in_parts for c in part]
        # 1. exactness (multiset)
        ok_exact = sorted(map(repr, got_seq)) == sorted(map(repr, exp_seq)) and None not in got_seq
        rep.check(ok_exact, "arguments-exact", label, where,
                  f"argument components {_short(got_seq)} are not exactly the network's state/action/"
                  f"disturbance/parameter components {_short(exp_seq)}", key=f"exact|{key}")
        # 2. order x,u,d,p and documented concatenation
        rep.check(got_seq == exp_seq, "argument-order", label, where,
                  f"flat argument order {_short(got_seq)} differs from the documented layout {_short(exp_seq)}",
                  key=f"order|{key}")
        rep.check([len(p) for p in in_flat] == [len(p) for p in exp_in_parts], "argument-partition", label, where,
                  f"argument sizes {[len(p) for p in in_flat]} differ from the documented partition "
                  f"{[len(p) for p in exp_in_parts]}", key=f"partition|{key}")
        # 3. successor alignment
        nx = sum(len(comps_of(w, tv, nz)) for (el, var, tv) in exp["x"][0])
        out_seq = [c for part in out_flat for c in part]
        succ_ok = len(out_seq) == nx
        detail = ""
        if not succ_ok:
            detail = f"{len(out_seq)} result components for {nx} state components"
        else:
            for k in range(nx):
                a, b = got_seq[k] if k < len(got_seq) else None, out_seq[k]
                if a is None or b is None or b != (a[0] + "+", a[1], a[2]):
                    succ_ok = False
                    detail = f"result component {k} is {b} while argument component {k} is {a}"
                    break
        rep.check(succ_ok, "successor-alignment", label, where, detail, key=f"succ|{key}")
        exp_out_parts = [[(c[0] + "+", c[1], c[2]) for (el, var, tv) in part for c in comps_of(w, tv, nz)]
                         for part in exp["x"][1]]
        rep.check([len(p) for p in out_flat] == [len(p) for p in exp_out_parts], "result-partition", label, where,
                  f"result sizes {[len(p) for p in out_flat]} differ from the documented partition "
                  f"{[len(p) for p in exp_out_parts]}", key=f"outpartition|{key}")
        # 5. names
        rep.check(len(names_in) == len(args_in) and len(names_out) == len(args_out), "names-match-values",
                  label, where, f"{len(names_in)} input names for {len(args_in)} inputs; {len(names_out)} "
                  f"output names for {len(args_out)} outputs", key=f"names|{key}")
        # 6. free symbols are not allowed
        free = isinstance(opts, dict) and bool(opts.get("allow_free", False))
        rep.check(not free, "no-free-symbols", label, where,
                  "casadi.Function is built with allow_free: symbols that are not arguments stay free",
                  key="allow_free")
    if not only_params and not only_variant:
        from .common import require_no_errors, wire_results

        cks = [ck for ck in wire_results(rep, "flags", impls=("casadi",)) if ck.cfg.history or not ck.cfg.flags]
        if require_no_errors(rep, cks):
            for ck in cks:
                ev = [e for p in ck.paths for e in p.events if e[0] in ("var-not-fresh", "memoised", "var-length",
                                                                         "engine-state-shared")]
                rep.check(not ev, "arguments-are-this-networks-variables", ck.cfg.label(),
                          ev[0][1] if ev else "engine.var", ev[0][2] if ev else "",
                          key=f"varfresh|{ev[0][0] if ev else ''}")
        # the order of an element's variables (hence of the function's arguments and results)
        # does not depend on how the caller's initial-condition dictionaries are ordered, and
        # the next states are kept in the order of the states
        from dataclasses import replace as _replace

        base = wire_results(rep, "base")
        n_ord = 0
        if require_no_errors(rep, base):
            by = {ck.cfg: ck for ck in base}
            for ck in base:
                if ck.cfg.init not in ("user", "partial") or ck.cfg.impl != "casadi":
                    continue
                ref = by.get(_replace(ck.cfg, init="engine"))
                if ref is None:
                    continue
                n_ord += 1
                bad = ""
                for p in ck.paths:
                    q = next((x for x in ref.paths if x.path == p.path), None)
                    if q is None or p.raised or q.raised:
                        continue
                    for role in p.states:
                        for g in ("states", "actions", "disturbances"):
                            a, b = p.states[role].get(g), q.states.get(role, {}).get(g)
                            if isinstance(a, dict) and isinstance(b, dict) and list(a) != list(b):
                                bad = (f"{g} of {role} are ordered {list(a)} when the caller supplies "
                                       f"{'only v / d' if ck.cfg.init == 'partial' else 'them as {v, rho} / {q, v_ctrl, r, d, w}'} but {list(b)} when the engine creates them")
                        a = p.states[role].get("states")
                        o = p.outputs.get(role)
                        if isinstance(a, dict) and isinstance(o, dict) and list(a) != list(o):
                            bad = f"states of {role} are ordered {list(a)} but its next states {list(o)}"
                rep.check(not bad, "variable-order-fixed", ck.cfg.label(), "ElementWithVars.init_vars", bad,
                          key=f"varorder|{bad[:50]}")
            rep.floor("configurations with caller-supplied variables compared for order", n_ord, 5)
    if not only_params and not only_variant:
        # the variables an element has after the real initialisation are the documented ones (they
        # are what the arguments of the function are made of): no more, no fewer
        documented = {
            "Link": {"states": ["rho", "v"]},
            "LinkWithVsl": {"states": ["rho", "v"], "actions": ["v_ctrl"]},
            "Origin": {},
            "MainstreamOrigin": {"states": ["w"], "actions": ["v_ctrl"], "disturbances": ["d"]},
            "MeteredOnRamp": {"states": ["w"], "actions": ["r"], "disturbances": ["d"]},
            "SimplifiedMeteredOnRamp": {"states": ["w"], "actions": ["q"], "disturbances": ["d"]},
            "Destination": {},
            "CongestedDestination": {"disturbances": ["d"]},
        }
        from ..interp import Raised as _Raised

        n_doc = 0
        for variant in ("merge", "bifurcation", "minimal"):
            netd = CP.build_network(prog, "SX", variant=variant)
            try:
                CP.run_step(prog, netd)
            except _Raised as e:
                rep.refuted("variables-as-documented", f"network={variant}", "Network.step",
                            f"stepping raises {e.exc}: {e.msg}", key=f"docvars|raise|{variant}")
                continue
            for el in netd.links + netd.origins + netd.dests:
                cname = el.cls.split(":")[1]
                want = documented.get(cname)
                if want is None:
                    continue
                n_doc += 1
                got = {g: list(el.attrs[g]) for g in ("states", "actions", "disturbances")
                       if isinstance(el.attrs.get(g), dict) and el.attrs[g]}
                rep.check(got == want, "variables-as-documented", f"{cname} `{el.ident}` (network={variant})",
                          f"{cname}.init_vars", f"after init_vars the element has {got}, documented {want}: the "
                          "function's arguments would not be the network's variables", key=f"docvars|{cname}")
        rep.floor("elements compared with the documented variables", n_doc, 8)
    if not only_params and not only_variant:
        CP.check_recompile(rep, prog, where)
    rep.analysed["option_combinations"] = n
    rep.floor("option combinations", n, 4 if only_variant else 6 if only_params else 30)


def _short(seq, n=14):
    s = ", ".join(f"{c[1]}.{c[0]}[{c[2]}]" if c else "?" for c in seq[:n])
    return "[" + s + (", ..." if len(seq) > n else "") + "]"
