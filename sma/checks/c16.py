"""C16 - symbolic model parameters behave like the numbers substituted for them."""
from __future__ import annotations

from .. import model as M
from .. import primcheck as PC
from ..core import Report
from . import c04
from .common import TRUSTED_WIRE, require_no_errors, wire_results

META = {
    "level": "other",
    "technique": "static analysis: taint of symbolic-capable values into python truth-value contexts inside the "
    "abstract interpretation + layout interpretation of the parameter arguments",
    "rule": "obligations = per configuration x path (CasADi engine) and per primitive: no value that may be "
    "symbolic reaches if/while/assert/and/or/not, bool()/int()/float()/len()/range(), an index position or a "
    "python builtin min/max (identity tests and isinstance are allowed; the one documented exception is the "
    "lane-count comparison `lanes_drop == 0`); parameters appended after x,u,d in declared order",
    "explanation": "In the abstract interpretation every state, action, disturbance and parameter is an opaque "
    "symbol; any python-level inspection of such a value is recorded with its term. If none occurs, the "
    "expression built with a symbol is the expression built with a number with the symbol in its place, so "
    "substitution commutes with compilation.",
    "claim": "Opacity of all symbolic-capable values on every path of the element layer and the CasADi "
    "engine, and the position/order of declared parameters among the function arguments.",
    "level_note": "trusted: CasADi substitution semantics. Exception (one named symbol): lane counts `lam` at "
    "`lanes_drop == 0` - lam is an integer by the constructor's contract and not in the property's list.",
}

KINDS = ("symbolic-truth", "symbolic-index", "symbolic-len")


def _only_lane_counts(term) -> bool:
    syms = M.symbols(term) if term is not None else set()
    return bool(syms) and all(s[0] == "s" and s[1].endswith(".lam") for s in syms)


def run(rep: Report) -> None:
    rep.trusted += TRUSTED_WIRE
    # the analysis worlds build elements from their slots: the constructors must store
    # every argument, symbolic or not, in the slot the dynamics read
    from .. import ctor as _ctor

    _ctor.check(rep, groups=("link", "vsl", "origin"))
    cks = [ck for ck in wire_results(rep, "base") if ck.cfg.impl == "casadi"]
    cks += wire_results(rep, "flags", impls=("casadi",))
    if not require_no_errors(rep, cks):
        return
    n_exc = 0
    for ck in cks:
        lab = ck.cfg.label()
        bad = None
        for p in ck.paths:
            for e in p.events:
                if e[0] in KINDS:
                    if e[0] == "symbolic-truth" and _only_lane_counts(e[3]):
                        n_exc += 1
                        continue
                    bad = e
                    break
            if bad:
                break
        if bad:
            rep.refuted("opaque-values", lab, bad[1],
                        f"{bad[2]}: a symbolic parameter/state here makes python evaluate its truth value "
                        "(CasADi raises or silently picks a branch)", key=f"{bad[0]}|{_fn(bad[1])}")
        else:
            rep.holds("opaque-values", lab, "Network.step")
    rep.analysed["lane-count exceptions seen"] = n_exc
    rep.floor("CasADi configurations", len(cks), 500)
    for r in PC.all_runs(rep.prog, rep.tier, impls=("casadi",)):
        inst = f"casadi {r.prim} [{r.config}]{' N=1' if r.n1 else ''}"
        ev = [e for e in r.events if e[0] in KINDS]
        if ev:
            rep.refuted("opaque-values-primitive", inst, ev[0][1], ev[0][2], key=f"prim|{r.prim}|{ev[0][0]}")
        else:
            rep.holds("opaque-values-primitive", inst, r.where)
    # (b) parameters: trailing, declared order (layout interpretation shared with C04)
    c04.run(rep, only_params=True)


def _fn(where: str) -> str:
    return where.split(" ")[-1] if where else ""
