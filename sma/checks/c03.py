"""C03 - the compiled CasADi function computes the same step as the NumPy engine."""
from __future__ import annotations

import ast
from dataclasses import replace

from .. import balance as B
from .. import compile as CP
from .. import expr as E
from .. import model as M
from ..core import Report
from ..interp import Raised, TV
from . import c15
from . import common
from .common import TRUSTED_WIRE, cfg_class, require_no_errors, wire_results

META = {
    "level": "proof",
    "technique": "static analysis: (a) sibling normal-form equality of the engines' primitives, (b) equality of "
    "the whole interpreted step under NumPy and under CasADi semantics on every topology class, (c) def-use "
    "pass-through of to_function by interpretation, (d) SX/MX sibling agreement, layering rule on imports",
    "rule": "obligations = (a) every primitive x configuration: engines equal (shared with C15); (b) per "
    "configuration: each next-state term interpreted with the NumPy engine equals the one interpreted with "
    "the CasADi engine, and the NumPy run has no rank violation; (c) per symbol type x compact level on the "
    "stepped concrete network: function results == the elements' next_states, arguments == the elements' "
    "state/action/disturbance symbols; (d) SX and MX give the same arguments and results; (e) no module "
    "outside engines/ imports numpy or casadi",
    "explanation": "Two runs are the same computation if every primitive agrees, the element layer is "
    "engine-neutral, and to_function passes states through unchanged: each part is decided from source.",
    "claim": "Equivalence of the compiled function and the NumPy step as terms, for every valid topology class, "
    "both symbol types and all compactness levels.",
    "level_note": "trusted: alias table; CasADi's symvar ordering; numerical evaluation of the libraries.",
}


def run(rep: Report) -> None:
    rep.trusted += TRUSTED_WIRE
    prog = rep.prog
    # (a)
    c15.run(rep)
    # (b)
    cks = wire_results(rep, "base") + wire_results(rep, "flags", impls=("casadi", "numpy"))
    if not require_no_errors(rep, cks):
        return
    by = {ck.cfg: ck for ck in cks}
    items = [ck.cfg for ck in cks if ck.cfg.impl == "numpy" and replace(ck.cfg, impl="casadi") in by]
    verdicts = common.pmap(_step_equal_one, items, shared={"by": by})
    common.apply_verdicts(rep, verdicts)
    n = len(items)
    rep.floor("configurations compared across engines", n, 500)

    # (c), (d) pass-through of to_function on the stepped concrete network
    fi = prog.function("sym_metanet.engines.casadi", "Engine.to_function")
    where = f"{prog.modules[fi.module].relpath}:{fi.node.lineno} Engine.to_function"
    results = {}
    for st in ("SX", "MX"):
        for compact in (0, 1, 2):
            label = f"{st} compact={compact}"
            net = CP.build_network(prog, st, vsl=False)
            w = net.w
            try:
                CP.run_step(prog, net, flags=("positive_init_speed",))
            except Raised as e:
                rep.refuted("pass-through", label, "Network.step", f"stepping raises {e.exc}", key="step-raise")
                continue
            r = CP.to_function(prog, net, compact=compact, other={"T": TV(E.S("T"), 0, False)})
            if r[0] != "function":
                rep.refuted("pass-through", label, where, f"to_function raises {r[1].exc}: {r[1].msg}", key="tf-raise")
                continue
            _, names_in, args_in, names_out, args_out, opts, it = r
            nz = M.make_normalizer(None, with_domain=False)
            try:
                out_flat = [x for a in args_out for x in CP.flatten(w, a, nz)]
                in_flat = [x for a in args_in for x in CP.flatten(w, a, nz)]
            except Exception as ex:
                rep.undecided("pass-through", label, where, f"cannot flatten: {ex}")
                continue
            els = net.links + net.origins + net.dests
            exp_out = []
            exp_in = {"states": [], "actions": [], "disturbances": []}
            for el in els:
                for g in exp_in:
                    d = el.attrs.get(g)
                    if d:
                        for var, tv in d.items():
                            t = tv.t
                            if t[0] == "max":  # clamped initial state: the argument is the symbol inside
                                t = t[2] if t[1] == E.ZERO else t[1]
                            exp_in[g].append((el.ident, var, B.comps(w, TV(t, 1), nz)))
                ns = el.attrs.get("next_states")
                if ns:
                    for var, tv in ns.items():
                        exp_out.append((el.ident, var, B.comps(w, tv, nz)))
            def canon(seq):
                return sorted((e, v) for e, v, _ in seq)
            # results: same multiset of components, each equal as a rational function
            want = [c for (e, v, cs) in (exp_out if compact <= 0 else sorted(exp_out, key=lambda x: _first_index(exp_out, x[1])))
                    for c in cs]
            ok = len(out_flat) == len(want) and all(a.equals(b) for a, b in zip(out_flat, want))
            rep.check(ok, "pass-through", f"{label}: results are the elements' next states", where,
                      f"{len(out_flat)} result components; expected the {len(want)} components of next_states in the "
                      "documented order", key=f"out|c={compact}")
            want_in = []
            for g in ("states", "actions", "disturbances"):
                seq = exp_in[g] if compact <= 0 else sorted(exp_in[g], key=lambda x: _first_index(exp_in[g], x[1]))
                want_in += [c for (e, v, cs) in seq for c in cs]
            ok = len(in_flat) == len(want_in) and all(a.equals(b) for a, b in zip(in_flat, want_in))
            rep.check(ok, "pass-through", f"{label}: arguments are the elements' independent symbols", where,
                      f"{len(in_flat)} argument components; expected {len(want_in)}", key=f"in|c={compact}")
            results[(st, compact)] = ([nz.show(x) for x in in_flat], [nz.show(x) for x in out_flat])
    for compact in (0, 1, 2):
        a, b = results.get(("SX", compact)), results.get(("MX", compact))
        if a is None or b is None:
            continue
        rep.check(a == b, "sx-mx-agree", f"compact={compact}", where,
                  "the SX and MX paths of the compilation produce different arguments/results", key=f"sxmx|c={compact}")

    # (e) layering
    nmods = 0
    for name, mi in prog.modules.items():
        if name.startswith("sym_metanet.engines"):
            continue
        nmods += 1
        bad = [v for v in mi.imports.values() if v.split(".")[0] in ("numpy", "casadi")]
        rep.check(not bad, "engine-neutral-layer", name, mi.relpath,
                  f"{name} imports {bad}: numeric work outside the engine interface cannot be the same on both engines",
                  key=f"layer|{name}")
    rep.floor("modules outside engines/", nmods, 8)
    # the compiled function takes its arguments in the order of the network's variables (else the same
    # inputs do not give the NumPy step's results): long link, clamped initial states
    from . import c04 as _c04

    _c04.run(rep, only_variant="long")
    # the function is that of the most recent step: compile, step again, compile again (same engine)
    from .. import compile as _CP

    _CP.check_recompile(rep, rep.prog, "Engine.to_function")



def _step_equal_one(cfg):
    by = common.SHARED["by"]
    ck = by[cfg]
    other = by[replace(cfg, impl="casadi")]
    ok, detail, where = True, "", "Network.step"
    for p in ck.paths:
        rk = [e for e in p.events if e[0] in ("rank-store", "rank-index", "rank-reduce")]
        if rk:
            ok, detail, where = False, f"NumPy engine: {rk[0][2]}", rk[0][1]
            break
        sh = [e for e in p.events if e[0] in ("engine-state-shared", "class-attr-store")]
        if sh:
            ok, detail, where = False, sh[0][2], sh[0][1]
            break
        al = common.aliasing_event(p)
        if al is not None:
            ok, detail, where = False, f"NumPy engine: {al[2]} (CasADi values are immutable: the two runs diverge)", al[1]
            break
        pa = {(repr(a[0]), a[1]) for a in p.assumptions}
        cands = [x for x in other.paths if {(repr(a[0]), a[1]) for a in x.assumptions} <= pa]
        q = max(cands, key=lambda x: len(x.assumptions)) if cands else None
        if q is None:
            ok, detail = False, f"the NumPy run takes python-level branches {p.path} incompatible with the CasADi run"
            break
        if p.raised or q.raised:
            if (p.raised is None) != (q.raised is None):
                ok = False
                detail = f"one engine raises ({(p.raised or q.raised)[0]}) where the other steps"
                where = (p.raised or q.raised)[1]
            continue
        nz = M.make_normalizer(cfg, with_domain=False)
        env = E.Env(p.n1)
        mapping, _ = M.assumption_substitution(p.assumptions, nz)
        M.apply_assumptions(nz, p.assumptions, env, mapping)
        for role, vs in q.outputs.items():
            for var, t in vs.items():
                got = p.outputs.get(role, {}).get(var)
                if got is None or not E.is_term(got) or not E.is_term(t):
                    ok, detail = False, f"no next {var} of {role} under the NumPy engine"
                    continue
                try:
                    mm = M.compare(got, t, env, nz, mapping)
                except E.ShapeError as ex:
                    mm = [("shape", str(ex), "")]
                if mm:
                    ok = False
                    detail = (f"next {var} of {role} at {mm[0][0]}: numpy = {mm[0][1][:300]} | casadi = {mm[0][2][:300]}")
    return (ok, "step-equal-under-both-engines", cfg.label(), where, detail,
            f"step-eq|{cfg_class(cfg)}|{detail[:50]}")


def _first_index(seq, var):
    for i, (e, v, _) in enumerate(seq):
        if v == var:
            return i
    return len(seq)
