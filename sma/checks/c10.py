"""C10 - each next state depends only on its own segment and its model neighbours."""
from __future__ import annotations

from .. import expr as E
from .. import model as M
from ..core import Report
from .common import require_fresh_lookups, TRUSTED_WIRE, cfg_class, require_no_errors, wire_results

META = {
    "level": "proof",
    "technique": "static analysis: dependency supports (stencils) of the interpreted next-state terms after "
    "normalisation, compared with the model's dependency table per position class",
    "rule": "obligations = per configuration x path x output (rho+, v+ of the stepped link, w+ of its origin) x "
    "position class (first / interior / last, or the only segment): the set of state/action/disturbance "
    "components occurring in the normal form is a subset of the D-table entry; plus: nothing in the "
    "dynamics is memoised or stored on elements (no dependence on earlier networks/steps)"
    "; parameters of neighbours are restricted per role (lanes of entering / following link, turn rates of the leaving links, capacity of the origin); one-link rings; constructor conformance for links; argument order of the compiled function for a 12-segment link"
    "; successor alignment of the compiled function on the merge network",
    "explanation": "The support of a term is a syntactic property of the function the code builds, hence of all "
    "numeric inputs at once; it is read off the normalised next-state term of every local topology class "
    "(cancelling occurrences disappear in the normal form) and compared with the neighbours the METANET "
    "model allows for that position.",
    "claim": "For every valid topology class and option configuration, no next state mentions a state, control "
    "or disturbance outside its model neighbourhood (own segment, upstream segment / node inflow, downstream "
    "density, own speed limit, merging ramp, lane drop).",
    "level_note": "over-approximation of true dependence only towards REFUTED. Parameters are always allowed.",
}

from ..spec.dtable import allowed_set, is_param  # noqa: F401


def run(rep: Report) -> None:
    rep.trusted += TRUSTED_WIRE
    # the analysis worlds build elements from their slots: the constructors must store
    # every argument, symbolic or not, in the slot the dynamics read
    from .. import ctor as _ctor

    _ctor.check(rep, groups=("link", "vsl"))
    cks = wire_results(rep, "base")
    if not require_no_errors(rep, cks):
        return
    n = 0
    for ck in cks:
        cfg = ck.cfg
        lab = cfg.label()
        bad = None
        hidden = None
        for p in ck.paths:
            for e in p.events:
                if e[0] in ("memoised", "extra-attr-store", "net-attr-store", "var-not-fresh", "global-state-store"):
                    hidden = e
                if e[0] == "iterates-all-links" and bad is None:
                    bad = ("SELF", "rho", None, [("s", e[2])])
            if p.raised and "contributes a whole vector" in (p.raised[2] or "") and bad is None:
                bad = ("SELF", "v", None, [("s", p.raised[2][7:140])])
        for (path, role, var, pos, extra) in ck.support_extras:
            if bad is None:
                bad = (role, var, pos, extra)
        n += ck.n_supports
        if hidden is not None:
            rep.refuted("no-hidden-dependence", lab, hidden[1],
                        f"{hidden[2]}: the next state can depend on an earlier network or step",
                        key=f"{hidden[0]}|{_fn(hidden[1])}")
        if bad:
            role, var, pos, extra = bad
            ex = ", ".join(_show(k) for k in extra[:4])
            rep.refuted("support-within-neighbourhood", lab, f"{role}.{var}+ at {E._fpos(pos)}",
                        f"next {var} of {role} at position {E._fpos(pos)} depends on {ex}, which is outside "
                        "its model neighbourhood",
                        key=f"support|{role}.{var}|{E._fpos(pos)}|{_show(extra[0])}|{cfg_class(cfg)}")
        else:
            rep.holds("support-within-neighbourhood", lab, "Network.step")
    rep.analysed["(output, position) supports computed"] = n
    require_fresh_lookups(rep)

    rep.floor("supports computed", n, 5000)
    # the dependency structure is stated on the function's arguments: they must be the network's
    # variables in their natural order also for a link of more than ten segments
    from . import c04 as _c04

    _c04.run(rep, only_variant=("long", "merge"))  # (merge: x+[i] is the successor of x[i])


def _show(k):
    if k[0] == "s":
        return k[1]
    return f"{k[2]}.{k[1]}@{E._fpos(k[3])}"


def _fn(where: str) -> str:
    return where.split(" ")[-1] if where else ""
