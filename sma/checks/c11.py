"""C11 - positivity options are exactly clamps at zero."""
from __future__ import annotations

from dataclasses import replace

from .. import expr as E
from .. import model as M
from ..core import Report
from ..wire import FLAGS
from .common import TRUSTED_WIRE, require_no_errors, wire_results

META = {
    "level": "proof",
    "technique": "static analysis: metamorphic identities between interpreted terms (flag on vs flag off) "
    "decided by rational-function normal form, over all option combinations of a reduced topology base",
    "rule": "obligations = per base configuration x flag set x engine: the next-state terms with the flags on "
    "equal, position-wise, the flag-off terms of the same configuration with each flagged initial quantity "
    "replaced by max(0, .) and each flagged next quantity wrapped in max(0, .); with all flags off no "
    "engine.max is reached on any path of any configuration",
    "explanation": "Network.step is interpreted (forwarding of the six options included) for every flag set "
    "(quick: none, each alone, all; thorough: all 64) on four base topologies covering every element kind "
    "that owns a clamped quantity; the flagged terms are compared with the transformed unflagged terms as "
    "rational functions over opaque atoms - no oracle table is involved.",
    "claim": "Each option clamps exactly its own quantity at exactly zero, before all uses (initial) / after "
    "the update (next), for links and all queued origin kinds, on both engines; nothing is clamped when all "
    "options are off.",
    "level_note": "trusted: engine.max is numpy.maximum / casadi.fmax (alias table).",
}


def transform(outputs, flags):
    """flag-off outputs -> what the flagged step must produce"""
    mapping = {}

    def walk_syms(t, acc):
        for s in M.symbols(t):
            acc.add(s)

    syms = set()
    for role, vs in outputs.items():
        for t in vs.values():
            if E.is_term(t):
                walk_syms(t, syms)
    for s in syms:
        if s[0] == "v" and s[1] == "rho" and "positive_init_density" in flags:
            mapping[s] = E.mx(E.ZERO, s)
        if s[0] == "v" and s[1] == "v" and "positive_init_speed" in flags:
            mapping[s] = E.mx(E.ZERO, s)
        if s[0] == "s" and s[1].endswith(".w") and "positive_init_queue" in flags:
            mapping[s] = E.mx(E.ZERO, s)
    out = {}
    for role, vs in outputs.items():
        out[role] = {}
        for var, t in vs.items():
            if not E.is_term(t):
                out[role][var] = t
                continue
            t2 = M.subst(t, mapping)
            if (var == "rho" and "positive_next_density" in flags) or (
                var == "v" and "positive_next_speed" in flags) or (
                var == "w" and "positive_next_queue" in flags):
                t2 = E.mx(E.ZERO, t2)
            out[role][var] = t2
    return out


def run(rep: Report, only_cls=None) -> None:
    rep.trusted += TRUSTED_WIRE
    cks = wire_results(rep, "flags", impls=("casadi", "numpy"))
    if not require_no_errors(rep, cks):
        return
    by = {ck.cfg: ck for ck in cks}
    n = 0
    for ck in cks:
        cfg = ck.cfg
        if only_cls is not None and cfg.link_cls != only_cls:
            continue
        base = by.get(replace(cfg, flags=frozenset(), history=()))
        if base is None:
            rep.undecided("clamp-identity", cfg.label(), "", "no flag-off counterpart")
            continue
        lab = cfg.label()
        if not cfg.flags:
            continue
        # pair paths by their decisions
        ok, detail = True, ""
        for p in ck.paths:
            q = next((x for x in base.paths if x.path == p.path), None)
            if q is None or p.raised or q.raised:
                ok, detail = False, f"path {p.path} raises or has no flag-off counterpart ({p.raised or (q and q.raised)})"
                break
            want = transform(q.outputs, cfg.flags)
            nz = M.make_normalizer(cfg, with_domain=False)
            env = E.Env(p.n1)
            mapping, _ = M.assumption_substitution(p.assumptions, nz)
            for role, vs in want.items():
                for var, t in vs.items():
                    got = p.outputs.get(role, {}).get(var)
                    if got is None or not E.is_term(got):
                        ok, detail = False, f"no next {var} of {role}"
                        break
                    try:
                        mm = M.compare(got, t, env, nz, mapping)
                    except E.ShapeError as e:
                        mm = [("shape", str(e), "")]
                    if mm:
                        ok = False
                        detail = (f"next {var} of {role} at {mm[0][0]}: with the options = {mm[0][1][:300]}  |  "
                                  f"clamp-transformed plain step = {mm[0][2][:300]}")
                        break
                if not ok:
                    break
            if not ok:
                break
        n += 1
        rep.check(ok, "clamp-identity", lab, "Network.step", detail,
                  key=f"clamp|{','.join(sorted(cfg.flags))}|{cfg.u_origin}|{cfg.link_cls}|{cfg.impl}")
    rep.floor("flagged configurations", n, 50 if only_cls is None else 10)
    if only_cls is not None:
        return
    # nothing clamped with all options off: over the whole base
    allc = wire_results(rep, "base") + [ck for ck in cks if not ck.cfg.flags]
    for ck in allc:
        if ck.cfg.flags or ck.cfg.history:
            continue
        hit = None
        for p in ck.paths:
            for name, via, where, args in p.prims:
                if name == "engine.max":
                    hit = where
                    break
            if hit:
                break
        rep.check(hit is None, "no-clamp-when-off", ck.cfg.label(), hit or "Network.step",
                  "engine.max is applied although all positivity options are off", key=f"unguarded|{_fn(hit or '')}")
    # (options of an earlier step must not survive in a later compilation) the function is that of the most recent step: compile, step again, compile again (same engine)
    from .. import compile as _CP

    _CP.check_recompile(rep, rep.prog, "Engine.to_function")



def _fn(where: str) -> str:
    return where.split(" ")[-1] if where else ""
