"""C09 - construction calls build exactly the described graph; malformed paths are
rejected and no non-node ever becomes a node of the graph."""
from __future__ import annotations

import itertools

from ..core import Report
from ..gworld import GWorld
from ..interp import FuncV, Obj, Raised
from ..wire import LINK, LINKVSL, NET, NODE

META = {
    "level": "other",
    "technique": "static analysis: abstract interpretation of the construction methods against a model "
    "of the DiGraph API, exhaustively over path shapes up to a bound",
    "rule": "obligations = (a) each add_* scenario (fresh / existing / replacing) yields exactly the expected "
    "node set, edge set and attachments and returns the network; (b) the lookups read back what was "
    "written (writer/reader key agreement); (c) every path shape over {node, link, other}^1..L with and "
    "without origin/destination: well-formed => exact graph, malformed => TypeError/ValueError, and after "
    "any outcome every graph node is a Node"
    "; the link views (interpreted from views.py) read back exactly the edges written on a network with a two-way road and a self-loop; add_path over an existing edge replaces its link"
    "; every lookup read before and after each call of a longer construction sequence (CPython caching, real decorator)",
    "explanation": "add_node(s)/add_link(s)/add_origin/add_destination/add_path are interpreted from source "
    "on a model of networkx's mutators; path shapes are enumerated exhaustively up to length L (quick 5, "
    "thorough 7) - the loop in add_path is a two-state machine, so longer paths repeat these transitions.",
    "claim": "Effect conformance of every construction call including replacement semantics, alternation / "
    "end-point rejection of malformed paths for all shapes up to the bound, and the invariant that only "
    "Node objects become graph nodes.",
    "level_note": "trusted: graph model of networkx (documented add_node/add_edge semantics). Path lengths "
    "beyond the bound are covered by the stated two-state-machine argument, not enumerated.",
}


def _call(prog, gw, it, name, *args, **kwargs):
    fi = prog.function("sym_metanet.network", f"Network.{name}")
    return it.call_function(FuncV(fi, gw.net, defcls=NET), list(args), kwargs)


def _is_node(o) -> bool:
    return isinstance(o, Obj) and o.cls == NODE


def run(rep: Report) -> None:
    prog = rep.prog
    rel = prog.module("sym_metanet.network").relpath
    rep.trusted += ["python ast", "graph model of networkx.DiGraph (sma/gworld.py)"]

    def where(name):
        fi = prog.function("sym_metanet.network", f"Network.{name}")
        return f"{rel}:{fi.node.lineno} Network.{name}"

    # ------------------------------------------------------- (a) primitive calls
    def scenario(label, meth, build_calls, expect, key):
        gw = GWorld(prog, "casadi")
        it = gw.interp()
        K = gw.consts
        objs = {}

        def node(n):
            return objs.setdefault(n, gw.node(n))

        def link(n):
            return objs.setdefault(n, gw.link(n))

        def org(n):
            return objs.setdefault(n, gw.origin(n, "MeteredOnRamp"))

        def dst(n):
            return objs.setdefault(n, gw.dest(n, "CongestedDestination"))

        env = dict(node=node, link=link, org=org, dst=dst)
        try:
            last = None
            for m, a in build_calls(env):
                last = _call(prog, gw, it, m, *a)
        except Raised as e:
            rep.refuted("effect", label, where(meth), f"raises {e.exc}: {e.msg}", key=f"effect|{key}|raise")
            return
        nodes, edges = gw.graph.snapshot()
        exp_nodes, exp_edges = expect(env, K)
        ok = nodes == exp_nodes and edges == exp_edges
        detail = ""
        if not ok:
            detail = (f"graph after the calls: nodes {_fmt(nodes)} edges {_fmt(edges)}; expected nodes "
                      f"{_fmt(exp_nodes)} edges {_fmt(exp_edges)}")
        rep.check(ok, "effect", label, where(meth), detail, key=f"effect|{key}")
        rep.check(last is gw.net, "returns-self", label, where(meth),
                  f"returns {last!r} instead of the network", key=f"self|{key}")
        # (b) lookups read back what was written
        try:
            links = {l for _, _, l in it.iterate(it.getattr(gw.net, "links", None, it.stack[-1] if it.stack else None), None, None)} if False else None
        except Exception:
            links = None

    L, O, Dk = "LINKENTRY", "ORIGINENTRY", "DESTINATIONENTRY"
    scenario("add_node(n)", "add_node",
             lambda e: [("add_node", (e["node"]("n1"),))],
             lambda e, K: ({e["node"]("n1"): {}}, {}), "add_node")
    scenario("add_node(n) twice keeps attachments", "add_node",
             lambda e: [("add_origin", (e["org"]("o"), e["node"]("n1"))), ("add_node", (e["node"]("n1"),))],
             lambda e, K: ({e["node"]("n1"): {K[O]: e["org"]("o")}}, {}), "add_node-existing")
    scenario("add_nodes([n1,n2,n3])", "add_nodes",
             lambda e: [("add_nodes", ([e["node"]("n1"), e["node"]("n2"), e["node"]("n3")],))],
             lambda e, K: ({e["node"](n): {} for n in ("n1", "n2", "n3")}, {}), "add_nodes")
    scenario("add_link(u, l, d) creates end nodes and the edge u->d", "add_link",
             lambda e: [("add_link", (e["node"]("u"), e["link"]("l"), e["node"]("d")))],
             lambda e, K: ({e["node"]("u"): {}, e["node"]("d"): {}},
                           {(e["node"]("u"), e["node"]("d")): {K[L]: e["link"]("l")}}), "add_link")
    scenario("add_link on the same edge replaces the link", "add_link",
             lambda e: [("add_link", (e["node"]("u"), e["link"]("l"), e["node"]("d"))),
                        ("add_link", (e["node"]("u"), e["link"]("l2"), e["node"]("d")))],
             lambda e, K: ({e["node"]("u"): {}, e["node"]("d"): {}},
                           {(e["node"]("u"), e["node"]("d")): {K[L]: e["link"]("l2")}}), "add_link-replace")
    scenario("add_link(u,l,d) then add_link(d,l2,u): two directed edges", "add_link",
             lambda e: [("add_link", (e["node"]("u"), e["link"]("l"), e["node"]("d"))),
                        ("add_link", (e["node"]("d"), e["link"]("l2"), e["node"]("u")))],
             lambda e, K: ({e["node"]("u"): {}, e["node"]("d"): {}},
                           {(e["node"]("u"), e["node"]("d")): {K[L]: e["link"]("l")},
                            (e["node"]("d"), e["node"]("u")): {K[L]: e["link"]("l2")}}), "add_link-both")
    scenario("add_links([(u,l,d),(d,l2,w)])", "add_links",
             lambda e: [("add_links", ([(e["node"]("u"), e["link"]("l"), e["node"]("d")),
                                        (e["node"]("d"), e["link"]("l2"), e["node"]("w"))],))],
             lambda e, K: ({e["node"]("u"): {}, e["node"]("d"): {}, e["node"]("w"): {}},
                           {(e["node"]("u"), e["node"]("d")): {K[L]: e["link"]("l")},
                            (e["node"]("d"), e["node"]("w")): {K[L]: e["link"]("l2")}}), "add_links")
    # one-shot iterables (generators, iter(...)) are legal `Iterable` arguments
    from ..interp import IterV

    scenario("add_nodes(iter([n1,n2,n3])) - a one-shot iterator", "add_nodes",
             lambda e: [("add_nodes", (IterV([e["node"]("n1"), e["node"]("n2"), e["node"]("n3")]),))],
             lambda e, K: ({e["node"](n): {} for n in ("n1", "n2", "n3")}, {}), "add_nodes-iter")
    scenario("add_links(iter([...])) - a one-shot iterator", "add_links",
             lambda e: [("add_links", (IterV([(e["node"]("u"), e["link"]("l"), e["node"]("d")),
                                              (e["node"]("d"), e["link"]("l2"), e["node"]("w"))]),))],
             lambda e, K: ({e["node"]("u"): {}, e["node"]("d"): {}, e["node"]("w"): {}},
                           {(e["node"]("u"), e["node"]("d")): {K[L]: e["link"]("l")},
                            (e["node"]("d"), e["node"]("w")): {K[L]: e["link"]("l2")}}), "add_links-iter")
    scenario("add_path(iter((n1,l,n2)))", "add_path",
             lambda e: [("add_path", (IterV([e["node"]("n1"), e["link"]("l"), e["node"]("n2")]),))],
             lambda e, K: ({e["node"]("n1"): {}, e["node"]("n2"): {}},
                           {(e["node"]("n1"), e["node"]("n2")): {K[L]: e["link"]("l")}}), "add_path-iter")
    for meth, mk, KK in (("add_origin", "org", O), ("add_destination", "dst", Dk)):
        scenario(f"{meth}(x, n) on a missing node", meth,
                 lambda e, meth=meth, mk=mk: [(meth, (e[mk]("x"), e["node"]("n")))],
                 lambda e, K, mk=mk, KK=KK: ({e["node"]("n"): {K[KK]: e[mk]("x")}}, {}), f"{meth}-new")
        scenario(f"{meth}(x, n) on an existing node keeps its edges and other attachment", meth,
                 lambda e, meth=meth, mk=mk: [
                     ("add_link", (e["node"]("n"), e["link"]("l"), e["node"]("m"))),
                     ("add_destination" if meth == "add_origin" else "add_origin",
                      (e["dst" if meth == "add_origin" else "org"]("other"), e["node"]("n"))),
                     (meth, (e[mk]("x"), e["node"]("n")))],
                 lambda e, K, mk=mk, KK=KK, meth=meth: (
                     {e["node"]("n"): {K[Dk if meth == "add_origin" else O]:
                                        e["dst" if meth == "add_origin" else "org"]("other"),
                                        K[KK]: e[mk]("x")},
                      e["node"]("m"): {}},
                     {(e["node"]("n"), e["node"]("m")): {K[L]: e["link"]("l")}}), f"{meth}-existing")
        scenario(f"{meth} twice on the same node: the later one replaces the earlier", meth,
                 lambda e, meth=meth, mk=mk: [(meth, (e[mk]("x"), e["node"]("n"))),
                                               (meth, (e[mk]("y"), e["node"]("n")))],
                 lambda e, K, mk=mk, KK=KK: ({e["node"]("n"): {K[KK]: e[mk]("y")}}, {}), f"{meth}-replace")
        scenario(f"{meth}(x, n) leaves other nodes alone", meth,
                 lambda e, meth=meth, mk=mk: [(meth, (e[mk]("x"), e["node"]("n"))),
                                               (meth, (e[mk]("y"), e["node"]("m")))],
                 lambda e, K, mk=mk, KK=KK: ({e["node"]("n"): {K[KK]: e[mk]("x")},
                                              e["node"]("m"): {K[KK]: e[mk]("y")}}, {}), f"{meth}-two")

    scenario("add_path over an existing edge replaces its link (like add_link does)", "add_path",
             lambda e: [("add_link", (e["node"]("n1"), e["link"]("l_old"), e["node"]("n2"))),
                        ("add_path", ((e["node"]("n1"), e["link"]("l_new"), e["node"]("n2")),))],
             lambda e, K: ({e["node"]("n1"): {}, e["node"]("n2"): {}},
                           {(e["node"]("n1"), e["node"]("n2")): {K[L]: e["link"]("l_new")}}), "add_path-replace")
    scenario("add_path with a self-loop over an existing self-loop replaces its link", "add_path",
             lambda e: [("add_link", (e["node"]("n1"), e["link"]("l_old"), e["node"]("n1"))),
                        ("add_path", ((e["node"]("n1"), e["link"]("l_new"), e["node"]("n1")),))],
             lambda e, K: ({e["node"]("n1"): {}},
                           {(e["node"]("n1"), e["node"]("n1")): {K[L]: e["link"]("l_new")}}), "add_path-replace-loop")

    # ---------------------------------------------- (b) readers see what writers wrote
    gw = GWorld(prog, "casadi")
    it = gw.interp()
    n1, n2, n3 = gw.node("n1"), gw.node("n2"), gw.node("n3")
    l1, l2 = gw.link("l1"), gw.link("l2")
    o, d = gw.origin("o", "MainstreamOrigin"), gw.dest("d", "Destination")
    try:
        _call(prog, gw, it, "add_link", n1, l1, n2)
        _call(prog, gw, it, "add_link", n2, l2, n3)
        _call(prog, gw, it, "add_origin", o, n1)
        _call(prog, gw, it, "add_destination", d, n3)
        fr = None
        got = {
            "nodes_by_name": it.getattr(gw.net, "nodes_by_name", None, fr),
            "links_by_name": it.getattr(gw.net, "links_by_name", None, fr),
            "nodes_by_link": it.getattr(gw.net, "nodes_by_link", None, fr),
            "origins": it.getattr(gw.net, "origins", None, fr),
            "origins_by_node": it.getattr(gw.net, "origins_by_node", None, fr),
            "origins_by_name": it.getattr(gw.net, "origins_by_name", None, fr),
            "destinations": it.getattr(gw.net, "destinations", None, fr),
            "destinations_by_node": it.getattr(gw.net, "destinations_by_node", None, fr),
            "destinations_by_name": it.getattr(gw.net, "destinations_by_name", None, fr),
        }
        exp = {
            "nodes_by_name": {"n1": n1, "n2": n2, "n3": n3},
            "links_by_name": {"l1": l1, "l2": l2},
            "nodes_by_link": {l1: (n1, n2), l2: (n2, n3)},
            "origins": {o: n1}, "origins_by_node": {n1: o}, "origins_by_name": {"o": o},
            "destinations": {d: n3}, "destinations_by_node": {n3: d}, "destinations_by_name": {"d": d},
        }
        for k in exp:
            rep.check(got[k] == exp[k], "reader-writer", f"lookup {k} after add_link x2, add_origin, add_destination",
                      f"{rel} Network.{k}", f"{k} = {_fmt(got[k])}, expected {_fmt(exp[k])}", key=f"rw|{k}")
        il = it.call(it.getattr(gw.net, "in_links", None, fr), [n2], {}, None, None)
        ol = it.call(it.getattr(gw.net, "out_links", None, fr), [n2], {}, None, None)
        rep.check([m[-1] for m in il.members] == [l1] and [m[-1] for m in ol.members] == [l2],
                  "reader-writer", "in_links(n2) / out_links(n2)", f"{rel} Network.in_links",
                  f"in_links(n2) = {il.members}, out_links(n2) = {ol.members}", key="rw|views")
    except Raised as e:
        rep.refuted("reader-writer", "lookups after construction", rel, f"raises {e.exc}: {e.msg}", key="rw|raise")

    # the lookups keep reading back what is written when construction goes on after they were
    # read (memoising lookups, as in CPython, through the real invalidating decorator)
    from ..histories import LOOKUPS, HistWorld, read_all

    hw = HistWorld(prog)
    hit = hw.interp()
    h1, h2, h3 = hw.node("n1"), hw.node("n2"), hw.node("n3")
    hl1, hl2 = hw.link("l1"), hw.link("l2")
    ho1, ho2 = hw.origin("o1", "MeteredOnRamp"), hw.origin("o2", "MainstreamOrigin")
    hd1, hd2 = hw.dest("d1"), hw.dest("d2", "CongestedDestination")
    steps = [("add_link", [h1, hl1, h2]), ("add_origin", [ho1, h1]), ("add_destination", [hd1, h2]),
             ("add_link", [h2, hl2, h3]), ("add_origin", [ho2, h2]), ("add_destination", [hd2, h3]),
             ("add_destination", [hd1, h3]), ("add_node", [hw.node("n4")])]
    try:
        for meth, a in steps:
            read_all(hw, hit, cached=True)  # every lookup is read before the next call
            mfi = prog.function("sym_metanet.network", f"Network.{meth}")
            hit.call(FuncV(mfi, hw.net, defcls=mfi.cls), list(a), {}, None, None)
            got, want = read_all(hw, hit, cached=True), read_all(hw, hit, cached=False)
            bad = [k for k in want if got.get(k) != want[k]]
            rep.check(not bad, "reader-writer", f"lookups read before and after {meth}({', '.join(x.ident for x in a)})",
                      f"{rel} Network.{meth}", f"after the call the lookups {bad} still show what was read before it",
                      key=f"rw|stale|{meth}")
    except Raised as e:
        rep.refuted("reader-writer", "lookups during construction", rel, f"raises {e.exc}: {e.msg}", key="rw|stale|raise")

    # the link views read back exactly the edges written (two-way road, self-loop)
    from ..histories import views_vs_graph

    gw = GWorld(prog, "casadi")
    it = gw.interp()
    n1, n2, n3 = gw.node("n1"), gw.node("n2"), gw.node("n3")
    ls = [gw.link(f"l{i}") for i in range(1, 5)]
    try:
        _call(prog, gw, it, "add_link", n1, ls[0], n2)
        _call(prog, gw, it, "add_link", n2, ls[1], n1)
        _call(prog, gw, it, "add_links", [(n2, ls[2], n2), (n2, ls[3], n3)])
        d_ = views_vs_graph(gw, it)
        rep.check(d_ is None, "reader-writer", "link views after add_link n1->n2, n2->n1, add_links [n2->n2, n2->n3]",
                  f"{prog.module('sym_metanet.views').relpath}", d_ or "", key="rw|views-graph")
    except Raised as e:
        rep.refuted("reader-writer", "link views after construction", rel, f"raises {e.exc}: {e.msg}", key="rw|views-raise")

    # ------------------------------------------------------------- (c) add_path
    maxlen = 7 if rep.tier == "thorough" else 5
    n_shapes = 0
    for length in range(1, maxlen + 1):
        for shape in itertools.product("NLX", repeat=length):
            # prune: beyond length 5 enumerate only shapes with at most one deviation
            if length > 5:
                ideal = "".join("NL"[i % 2] for i in range(length))
                if sum(1 for a, b in zip(shape, ideal) if a != b) > 1:
                    continue
            for with_o, with_d in ((False, False), (True, True), (True, False), (False, True)):
                if rep.tier == "quick" and length >= 5 and (with_o != with_d):
                    continue
                n_shapes += 1
                _path_case(rep, prog, where("add_path"), "".join(shape), with_o, with_d)
    # a cycle re-using the first node
    _path_case(rep, prog, where("add_path"), "NLNLN", True, False, cycle=True)
    rep.analysed["path_shapes"] = n_shapes
    rep.floor("path shapes", n_shapes, 300)


def _path_case(rep, prog, where, shape, with_o, with_d, cycle=False):
    gw = GWorld(prog, "casadi")
    it = gw.interp()
    K = gw.consts
    objs = []
    for i, c in enumerate(shape):
        if c == "N":
            objs.append(gw.node(f"n{i}"))
        elif c == "L":
            objs.append(gw.link(f"l{i}"))
        else:
            objs.append(gw.other_object(f"x{i}"))
    if cycle:
        objs[-1] = objs[0]
    o = gw.origin("o", "MainstreamOrigin") if with_o else None
    d = gw.dest("d", "Destination") if with_d else None
    wellformed = (len(shape) >= 3 and len(shape) % 2 == 1
                  and all(c == "NL"[i % 2] for i, c in enumerate(shape)))
    label = f"add_path({'-'.join(shape)}{', origin' if with_o else ''}{', destination' if with_d else ''}{', cyclic' if cycle else ''})"
    outcome, exc = "return", None
    ret = None
    try:
        ret = _call(prog, gw, it, "add_path", tuple(objs), origin=o, destination=d)
    except Raised as e:
        outcome, exc = "raise", e
    nodes, edges = gw.graph.snapshot()
    bad_nodes = [n for n in nodes if not _is_node(n)]
    rep.check(not bad_nodes, "only-nodes-become-nodes", label, where,
              f"after the call the graph has non-node object(s) {bad_nodes} as nodes", key=f"nonnode|{_cls_shape(shape)}")
    if wellformed:
        exp_nodes = {}
        for ob in objs[0::2]:
            exp_nodes.setdefault(ob, {})
        if o is not None:
            exp_nodes[objs[0]][K["ORIGINENTRY"]] = o
        if d is not None:
            exp_nodes[objs[-1]][K["DESTINATIONENTRY"]] = d
        exp_edges = {}
        for i in range(1, len(objs), 2):
            exp_edges[(objs[i - 1], objs[i + 1])] = {K["LINKENTRY"]: objs[i]}
        ok = outcome == "return" and nodes == exp_nodes and edges == exp_edges and ret is gw.net
        rep.check(ok, "path-builds-graph", label, where,
                  (f"raises {exc.exc}: {exc.msg}" if outcome == "raise" else
                   f"graph nodes {_fmt(nodes)} edges {_fmt(edges)}; expected nodes {_fmt(exp_nodes)} edges {_fmt(exp_edges)}"),
                  key=f"pathgraph|{len(shape)}|o={with_o}|d={with_d}")
    else:
        good = outcome == "raise" and exc.exc.split(".")[-1] in ("TypeError", "ValueError")
        rep.check(good, "malformed-path-rejected", label, where,
                  ("the malformed path is accepted silently" if outcome == "return"
                   else f"raises {exc.exc} rather than TypeError/ValueError"),
                  key=f"reject|{_cls_shape(shape)}")


def _cls_shape(shape: str) -> str:
    """class of a malformed shape: where the first deviation from N(LN)+ occurs"""
    for i, c in enumerate(shape):
        if c != "NL"[i % 2]:
            return f"dev@{'first' if i == 0 else ('link-pos' if i % 2 else 'node-pos')}:{c}"
    return "ends-in-link" if len(shape) % 2 == 0 else ("single-node" if len(shape) == 1 else "ok")


def _fmt(x) -> str:
    s = repr(x)
    return s if len(s) < 300 else s[:297] + "..."
