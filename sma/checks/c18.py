"""C18 - neutral controls reproduce the uncontrolled model; limits never raise speeds."""
from __future__ import annotations

from dataclasses import replace

from .. import expr as E
from .. import model as M
from .. import primcheck as PC
from ..core import Report
from ..spec import ptable as P
from . import common
from .common import TRUSTED_WIRE, require_no_errors, wire_results

META = {
    "level": "proof",
    "technique": "static analysis: substitution identities on normal forms (with +inf absorption under sign "
    "facts), monotonicity by affine-coefficient sign, class-table difference, paired topology classes",
    "rule": "obligations = per engine: controlled_Veq[v_ctrl:=inf] == Veq; outside the limited segments "
    "controlled_Veq is Veq; Veq is an upper bound of controlled_Veq; step_speed is affine in Veq with "
    "coefficient T/tau >= 0; ramp 'in'[r:=1] == ramp 'out'[r:=1]; limited simplified ramp[qdes:=inf] == "
    "ramp[r:=1]; mainstream[v_ctrl:=inf] is limited by v_first only; per topology class: a LinkWithVsl with "
    "infinite limits steps exactly like a Link; LinkWithVsl overrides only __init__, init_vars and the "
    "equilibrium speed"
    "; a LinkWithVsl handles the positive_* options like a Link (clamp identity); ramp equalities decided without sign facts"
    "; the steps of the configurations that carry controls (mainstream origin, links with signs) equal the W-table",
    "explanation": "Each identity is decided by substituting the neutral value into the interpreted term and "
    "normalising; min(x, c*inf) = x needs c > 0, which comes from the fact 1 + alpha > 0.",
    "claim": "All stated neutral-control reductions and the never-raises-speed monotonicity, for all states at "
    "once, on both engines and on every topology class.",
    "level_note": "not decided: `vsl = []` (empty fancy indexing of each library). Trusted: alias table.",
}


def _prim(prog, impl, prim, typ=None, present=(), n1=False):
    return PC.run_prim(prog, impl, prim, set(present), typ, n1)


def run(rep: Report) -> None:
    rep.trusted += TRUSTED_WIRE
    prog = rep.prog
    INFV = E.INF
    for impl in ("numpy", "casadi"):
        for n1 in (False, True):
            tag = f"{impl}{' N=1' if n1 else ''}"
            nz = PC.prim_normalizer(True)
            env = E.Env(PC.prim_env("links.controlled_Veq", n1))
            vsl = [0] if n1 else [1, 3]
            cv = _prim(prog, impl, "links.controlled_Veq", n1=n1)
            ve = _prim(prog, impl, "links.Veq", n1=n1)
            if cv.term is None or ve.term is None:
                rep.refuted("vsl-neutral", tag, cv.where, f"raises {cv.raised or ve.raised}", key=f"vsl|{impl}|raise")
                continue
            vctrl = E.V("v_ctrl", "K.vsl")
            t_inf = M.subst(cv.term, {vctrl: INFV})
            try:
                d = M.compare(t_inf, ve.term, env, nz)
                undefined = []
                for pos in E.positions(E.shape(t_inf, env), env):
                    undefined += M.definedness(t_inf, pos, env, nz)
            except (E.ShapeError, Exception) as ex:
                d = [("error", str(ex), "")]
                undefined = []
            rep.check(not d, "vsl-neutral", f"{tag}: controlled_Veq with infinite limits equals Veq", cv.where,
                      "" if not d else f"at {d[0][0]}: {d[0][1][:300]} | Veq = {d[0][2][:300]}",
                      key=f"vsl-inf|{impl}")
            rep.check(not undefined, "vsl-neutral-defined", f"{tag}: controlled_Veq is defined for infinite limits", cv.where,
                      "" if not undefined else f"{undefined[0][0]}: `{undefined[0][1]}` may be undefined (e.g. 0*inf) for an "
                      "admissible non-compliance factor", key=f"vsl-inf-def|{impl}")
            # outside the limited set / upper bound
            ok_out, ok_ub, detail = True, True, ""
            for pos in E.positions(E.shape(cv.term, env), env):
                k = 0 if pos is None else pos[1]
                sc = E.at(cv.term, pos, env)
                vq = nz.rf(E.at(ve.term, pos, env))
                if k not in vsl:
                    if not nz.rf(sc).equals(vq):
                        ok_out = False
                        detail = f"segment {k} has no sign but its equilibrium speed is {nz.show(nz.rf(sc))[:200]}, not Veq"
                else:
                    if not any(u.equals(vq) for u in M.upper_bounds(sc, nz)):
                        ok_ub = False
                        detail = f"segment {k}: Veq is not an upper bound of the limited speed {E.fmt(sc, 200)}"
                    if nz.rf(sc).equals(vq):
                        ok_ub = False
                        detail = f"segment {k} carries a sign but its speed is not limited"
            rep.check(ok_out, "vsl-unlimited-untouched", tag, cv.where, detail, key=f"vsl-out|{impl}")
            rep.check(ok_ub, "vsl-never-raises", tag, cv.where, detail, key=f"vsl-ub|{impl}")
            # step_speed affine in Veq with non-negative coefficient
            for present in ((), ("q_ramp", "delta"), ("lanes_drop", "phi", "rho_crit"),
                            ("q_ramp", "delta", "lanes_drop", "phi", "rho_crit")):
                ss = _prim(prog, impl, "links.step_speed", present=present, n1=n1)
                if ss.term is None:
                    rep.refuted("speed-monotone-in-Veq", f"{tag} [{ss.config}]", ss.where, f"raises {ss.raised}",
                                key=f"mono|{impl}|raise")
                    continue
                h = E.V("h", "K")
                t1 = M.subst(ss.term, {E.V("Veq", "K"): E.add(E.V("Veq", "K"), h)})
                coef_ok, dd = True, ""
                env = E.Env({"K": n1})
                for pos in E.positions(E.shape(ss.term, env), env):
                    diff = nz.rf(E.at(t1, pos, env)) - nz.rf(E.at(ss.term, pos, env))
                    want = nz.rf(E.at(E.mul(E.div(E.S("T"), E.S("tau")), h), pos, env))
                    if not diff.equals(want):
                        coef_ok, dd = False, f"at {E._fpos(pos)}: d v+ / d Veq term is {nz.show(diff)[:200]}, not (T/tau) h"
                rep.check(coef_ok, "speed-monotone-in-Veq", f"{tag} [{ss.config}]", ss.where, dd,
                          key=f"mono|{impl}|{ss.config}")
        # ramp laws
        nz = PC.prim_normalizer(False)  # equalities are decided without sign facts (w may be negative)
        env = E.Env({})
        rin = _prim(prog, impl, "origins.get_ramp_flow", "in")
        rout = _prim(prog, impl, "origins.get_ramp_flow", "out")
        sim = _prim(prog, impl, "origins.get_simplifiedramp_flow", "limited")
        ms = _prim(prog, impl, "origins.get_mainstream_flow")
        if None in (rin.term, rout.term, sim.term, ms.term):
            rep.refuted("ramp-neutral", impl, rin.where, "an origin law raises", key=f"ramp|{impl}|raise")
            continue
        one = {E.S("r"): E.ONE}
        a, b = M.subst(rin.term, one), M.subst(rout.term, one)
        d = M.compare(a, b, env, nz)
        rep.check(not d, "ramp-neutral", f"{impl}: rate one makes the 'in' and 'out' variants coincide", rin.where,
                  "" if not d else f"in = {d[0][1][:250]} | out = {d[0][2][:250]}", key=f"ramp-r1|{impl}")
        c = M.subst(sim.term, {E.S("qdes"): INFV})
        d = M.compare(c, b, env, nz)
        rep.check(not d, "ramp-neutral", f"{impl}: limited simplified ramp with unbounded desired flow equals the "
                  "metered ramp with rate one", sim.where,
                  "" if not d else f"simplified = {d[0][1][:250]} | metered = {d[0][2][:250]}", key=f"ramp-qinf|{impl}")
        m_inf = M.subst(ms.term, {E.S("v_ctrl"): INFV})
        ref = P.get_mainstream_flow(E.S("d"), E.S("w"), E.S("v_first"), E.S("v_first"), E.S("rho_crit"), E.S("a"),
                                    E.S("v_free"), E.S("lanes"), E.S("T"))
        d = M.compare(m_inf, ref, env, nz)
        rep.check(not d, "mainstream-neutral", f"{impl}: infinite limit leaves only the first-segment speed", ms.where,
                  "" if not d else f"with v_ctrl = inf: {d[0][1][:250]} | expected {d[0][2][:250]}", key=f"ms-inf|{impl}")

    # class-table difference
    vsl = prog.find_class("sym_metanet.blocks.links", "LinkWithVsl")
    allowed = {"__init__", "init_vars", "_get_equilibrium_speed"}
    link_ci = prog.find_class("sym_metanet.blocks.links", "Link")
    inherited = set()
    for c in prog.mro(link_ci.fq):
        inherited |= set(prog.classes[c].methods)
    extra = sorted((set(vsl.methods) & inherited) - allowed)  # (new helper methods are not overrides)
    rep.check(not extra, "vsl-class-diff", "LinkWithVsl overrides", f"{prog.modules[vsl.module].relpath}:{vsl.node.lineno}",
              f"LinkWithVsl also overrides {extra}: with equal equilibrium speed it no longer is Link's step",
              key="vsl-class")
    # the stepped quantities of the configurations that carry controls (mainstream origin with
    # its speed limit, links with signs) are the model's: in particular the limit is combined
    # with the speed of the *first* segment of the fed link
    from . import c01 as _c01

    _c01.run(rep, only_prims=lambda pr: False,
             only_cfg=lambda cfg: cfg.u_origin == "MainstreamOrigin" or cfg.link_cls == "LinkWithVsl")
    # a link with signs handles the positive_* options of a step exactly like a plain link
    from . import c11 as _c11

    _c11.run(rep, only_cls="LinkWithVsl")
    from .. import ctor

    ctor.check(rep, groups=("vsl", "origin"))

    # per topology class: LinkWithVsl with infinite limits == Link
    cks = wire_results(rep, "base")
    if not require_no_errors(rep, cks):
        return
    by = {ck.cfg: ck for ck in cks}
    items = [ck.cfg for ck in cks if ck.cfg.link_cls == "LinkWithVsl" and ck.cfg.init == "engine"
             and ck.cfg.engine_arg == "explicit" and replace(ck.cfg, link_cls="Link") in by]
    common.apply_verdicts(rep, common.pmap(_vsl_pair_one, items, shared={"by": by}))
    n = len(items)
    rep.floor("paired VSL/plain configurations", n, 300)


def _vsl_pair_one(cfg):
    by = common.SHARED["by"]
    ck, plain = by[cfg], by[replace(cfg, link_cls="Link")]
    ok, detail = True, ""
    for p in ck.paths:
        q = next((x for x in plain.paths if x.path == p.path), None)
        if q is None or p.raised or q.raised:
            ok, detail = False, "a path raises or has no plain-link counterpart"
            break
        nz = M.make_normalizer(cfg)
        env = E.Env(p.n1)
        mapping, _ = M.assumption_substitution(p.assumptions, nz)
        M.apply_assumptions(nz, p.assumptions, env, mapping)
        mapping = dict(mapping)
        mapping[E.V("v_ctrl", "SELF.vsl")] = E.INF
        for role, vs in q.outputs.items():
            for var, t in vs.items():
                got = p.outputs.get(role, {}).get(var)
                if got is None:
                    ok, detail = False, f"no next {var} of {role}"
                    continue
                try:
                    mm = M.compare(got, t, env, nz, mapping)
                except E.ShapeError as ex:
                    mm = [("shape", str(ex), "")]
                if mm:
                    ok, detail = False, (f"next {var} of {role} at {mm[0][0]}: with infinite limits = "
                                         f"{mm[0][1][:250]} | plain link = {mm[0][2][:250]}")
    return (ok, "vsl-link-equals-plain-link", cfg.label(), "LinkWithVsl", detail,
            f"vsl-plain|{cfg.u_origin}|{cfg.d_dest}|{cfg.impl}")
