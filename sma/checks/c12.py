"""C12 - stepping is a pure, repeatable function of the supplied values."""
from __future__ import annotations

import ast

from .. import primcheck as PC
from ..core import Report
from ..front import walk_no_nested
from .common import TRUSTED_WIRE, require_no_errors, wire_results

META = {
    "level": "other",
    "technique": "static analysis: mutation/freshness effect analysis inside the abstract interpretation "
    "(in-place operations, container ownership, attribute stores, memoisation) + who-may-read rule",
    "rule": "obligations = per configuration (engine-created and caller-supplied variables, all flag sets of the "
    "reduced base): no in-place operation targets a value that may alias caller data or element state, no "
    "caller dictionary is mutated, no element parameter or extra attribute is stored, nothing reachable "
    "from the dynamics is memoised; per primitive x engine: no in-place operation on an argument, the "
    "result does not alias an argument unless the interface says so; package-wide: the dynamics never "
    "read next_states"
    "; history: the same objects stepped before with other options / engine / array ranks give the same results as a fresh step; every read of next_states met while interpreting Network.step happens in the bookkeeping of ElementWithVars.step, not in the dynamics; state dictionaries are the element's own, no cast to the dtype of caller data",
    "explanation": "Every symbolic value carries a freshness flag (created by this computation vs. may alias "
    "caller/state data) and every dict an ownership mark; the interpreter records each in-place update, "
    "subscript store, `out=` write, dict mutation and attribute store reached on any path of Network.step "
    "and of each primitive.",
    "claim": "No path of the step or of any primitive writes into caller-supplied arrays/dicts, element "
    "parameters or hidden per-element state; the only state carried between steps is the documented "
    "states/next_states fields, and next_states is never read by the dynamics.",
    "level_note": "trusted: numpy arithmetic returns new arrays and basic indexing returns views; casadi "
    "values are immutable expression handles.",
}

BAD = {
    "mutates-shared": "in-place update of data that may be owned by the caller / an element state",
    "mutates-caller-container": "mutation of a dictionary supplied by the caller",
    "param-store": "element parameter overwritten during stepping",
    "extra-attr-store": "hidden per-element state stored during stepping",
    "net-attr-store": "hidden state stored on the network during stepping",
    "state-dict-aliased": "a caller-supplied dictionary is kept as element state",
    "global-state-store": "state kept in a module-level / class-level / default-argument container",
    "memoised": "memoised function in the dynamics",
    "var-not-fresh": "variables reused across initialisations",
    "class-attr-store": "state stored on a class (shared by all instances) during stepping",
    "engine-state-shared": "engine configuration shared between engine instances",
}


def history_independence(rep: Report, cks) -> int:
    """the same objects stepped before (other options / engine argument / array ranks) give the
    same next states as a fresh step; returns the number of configurations compared"""
    # history independence: the same objects stepped before with other options / engine
    # arguments give the same next states as a fresh step
    from dataclasses import replace as _replace

    from .. import expr as E
    from .. import model as M

    by = {ck.cfg: ck for ck in cks}
    nh = 0
    for ck in cks:
        cfg = ck.cfg
        if not cfg.history:
            continue
        base = by.get(_replace(cfg, history=()))
        if base is None:
            continue
        nh += 1
        ok, detail = True, ""
        for p in ck.paths:
            # the fresh path taken under the same decisions (the earlier steps may have added
            # decisions of their own, on other conditions)
            pa = {(repr(a[0]), a[1]) for a in p.assumptions}
            cands = [x for x in base.paths if {(repr(a[0]), a[1]) for a in x.assumptions} <= pa]
            q = max(cands, key=lambda x: len(x.assumptions)) if cands else None
            if q is None or p.raised or q.raised:
                ok, detail = False, f"the step after earlier steps raises or branches differently ({p.raised})"
                break
            nz = M.make_normalizer(cfg, with_domain=False)
            env = E.Env(p.n1)
            for role, vs in q.outputs.items():
                for var, t in vs.items():
                    got = p.outputs.get(role, {}).get(var)
                    if got is None or not E.is_term(got):
                        ok, detail = False, f"no next {var} of {role}"
                        continue
                    try:
                        mm = M.compare(got, t, env, nz)
                    except E.ShapeError as ex:
                        mm = [("shape", str(ex), "")]
                    if mm:
                        ok = False
                        detail = (f"next {var} of {role} at {mm[0][0]} depends on what was stepped before: "
                                  f"{mm[0][1][:250]} | fresh step = {mm[0][2][:250]}")
        rep.check(ok, "history-independence", cfg.label(), "Network.step", detail,
                  key=f"history|{cfg.u_origin}|{cfg.impl}|{detail[:40]}")
    return nh


def run(rep: Report) -> None:
    rep.trusted += TRUSTED_WIRE
    prog = rep.prog
    cks = wire_results(rep, "base") + wire_results(rep, "flags", impls=("casadi", "numpy"))
    if not require_no_errors(rep, cks):
        return
    for ck in cks:
        lab = ck.cfg.label()
        found = False
        for p in ck.paths:
            for e in p.events:
                if e[0] in BAD:
                    found = True
                    rep.refuted("no-side-effects", lab, e[1], f"{BAD[e[0]]}: {e[2]}",
                                key=f"{e[0]}|{_fn(e[1])}")
                    break
                if e[0] == "current-engine" and ck.cfg.engine_arg == "explicit":
                    # the result of a step with an explicit engine must not depend on the process-wide
                    # engine selection (hidden global state)
                    found = True
                    rep.refuted("no-side-effects", lab, e[1], "the process-wide engine selection is read although an "
                                "engine was passed to the step: the same call gives other results (or fails) after "
                                "another engine was selected", key=f"global-engine|{_fn(e[1])}")
                    break
            if found:
                break
        if not found:
            rep.holds("no-side-effects", lab, "Network.step")
    nh = history_independence(rep, cks)
    rep.floor("configurations with earlier steps", nh, 8)
    rep.analysed["configurations"] = len(cks)
    rep.floor("configurations", len(cks), 1000)
    n_user = sum(1 for ck in cks if ck.cfg.init == "user")
    rep.floor("configurations with caller-supplied variables", n_user, 10)

    # primitives in isolation: arguments are caller data
    runs = PC.all_runs(prog, rep.tier)
    for r in runs:
        inst = f"{r.impl} {r.prim} [{r.config}]{' N=1' if r.n1 else ''}"
        ev = [e for e in r.events if e[0] in BAD]
        if ev:
            rep.refuted("primitive-pure", inst, ev[0][1], f"{BAD[ev[0][0]]}: {ev[0][2]}",
                        key=f"prim|{r.impl}|{r.prim}|{ev[0][0]}")
        else:
            rep.holds("primitive-pure", inst, r.where)
    rep.floor("primitive runs", len(runs), 150)

    # who reads next_states while stepping: every attribute load of `next_states` /
    # `has_next_states` met on any interpreted path of Network.step is recorded with the
    # function it occurs in and whether it happens in the bookkeeping part of
    # ElementWithVars.step (the frame `step` of that class and what it calls, outside
    # `step_dynamics`), which stores the results.
    n_reads = 0
    readers: dict = {}
    for ck in cks:
        for p in ck.paths:
            for e in p.events:
                if e[0] == "next-states-read":
                    n_reads += 1
                    fnq, book = e[3][0], e[3][1]
                    readers.setdefault((fnq, book), (e[1], e[2], ck.cfg.label()))
    for (fnq, book), (where, detail, lab) in sorted(readers.items()):
        rep.check(book, "next-states-not-read", f"{detail.split(' of ')[0]} read in {fnq}", where,
                  f"stepping reads the previous step's results outside the bookkeeping of ElementWithVars.step "
                  f"({detail}; first met in {lab}): stepping again from the same values would depend on history",
                  key=f"nsread|{fnq}")
    rep.analysed["reads of next_states met while stepping"] = n_reads
    rep.floor("reads of next_states met while stepping", n_reads, 1000)


def _fn(where: str) -> str:
    return where.split(" ")[-1] if where else ""
