"""C13 - the selected engine is the default; an explicit engine is always honoured."""
from __future__ import annotations

from .. import expr as E
from ..core import Report
from ..interp import Builtin, ClassV, ExtMod, FuncV, Interp, Obj, Raised
from ..primcheck import PrimWorld
from ..wire import ENGINE_CLS
from .common import TRUSTED_WIRE, require_no_errors, wire_results

META = {
    "level": "other",
    "technique": "static analysis: abstract interpretation with engine-identity tracking (which engine object "
    "every primitive / variable / clamp call is dispatched on) + interpretation of use()/get_current_engine()",
    "rule": "obligations = (a) selection scenarios for engines.use: instance, valid names, invalid name - the "
    "returned/current engine and the unchanged selection after a refusal; (b) per configuration with an "
    "explicit engine: no get_current_engine() call on any path, every primitive/var/vcat/max dispatched on the "
    "explicit engine, the selection never stored; per configuration without an engine: everything dispatched "
    "on the current engine, selection never stored",
    "explanation": "The abstract world has two distinguishable engine objects (explicit, currently selected); "
    "every engine-level call records the object it was reached through, on every path of Network.step over "
    "all local topology classes and element kinds.",
    "claim": "Forwarding of the engine at every call site on every path, the default only under `engine is "
    "None`, and the store discipline of the selection, for all element kinds and topology classes.",
    "level_note": "trusted: python ast; importlib.import_module returns the named module.",
}


class SelWorld(PrimWorld):
    def __init__(self, prog):
        super().__init__(False)
        self.prog = prog
        self.current = Obj(ENGINE_CLS["casadi"], "E0", kind="engine")
        self.stores = []
        self.created = []

    def module_attr(self, it, modname, attr, node):
        if modname == "sym_metanet" and attr == "engine":
            return self.current
        return NotImplemented

    def on_module_store(self, it, modname, attr, v, node):
        if modname == "sym_metanet" and attr == "engine":
            self.current = v
            self.stores.append(v)
            return None
        it.event("other-module-store", node, f"{modname}.{attr}")
        return None

    def call_ext(self, it, name, args, kwargs, node):
        if name.endswith("import_module"):
            return ExtMod(args[0])
        return NotImplemented

    def construct(self, it, cv, args, kwargs, node):
        if cv.fq in ENGINE_CLS.values():
            o = Obj(cv.fq, f"new-{cv.fq.split('.')[-1]}", kind="engine")
            self.created.append(o)
            return o
        cname = cv.fq.split(":")[1]
        if cname.endswith("Error"):
            return Obj(cv.fq, cname, kind="exception")
        return NotImplemented


def run(rep: Report) -> None:
    rep.trusted += TRUSTED_WIRE
    prog = rep.prog
    core = prog.module("sym_metanet.engines.core")
    use = prog.function("sym_metanet.engines.core", "use")
    gce = prog.function("sym_metanet.engines.core", "get_current_engine")
    where = f"{core.relpath}:{use.node.lineno} use"

    # ------------------------------------------------------------ (a) use()
    def scenario(label, arg, expect, prelude=None):
        w = SelWorld(prog)
        it = Interp(prog, w)
        if prelude is not None:
            prelude(it, w)
        before = w.current
        try:
            ret = it.call_function(FuncV(use), [arg(w)], {})
            outcome = ("return", ret)
        except Raised as e:
            outcome = ("raise", e)
        cur = it.call_function(FuncV(gce), [], {})
        expect(label, w, before, outcome, cur)

    def exp_instance(label, w, before, outcome, cur):
        ok = outcome[0] == "return" and outcome[1] is w.inst and w.current is w.inst and cur is w.inst
        rep.check(ok, "selection", label, where,
                  f"after use(instance): returned {outcome[1]!r}, current {w.current!r}", key="use|instance")

    def mk_inst(w):
        w.inst = Obj(ENGINE_CLS["numpy"], "E1", kind="engine")
        return w.inst

    scenario("use(engine instance) makes it current and returns it", mk_inst, exp_instance)
    for name in ("casadi", "numpy"):
        def exp_name(label, w, before, outcome, cur, name=name):
            ok = (outcome[0] == "return" and len(w.created) == 1 and outcome[1] is w.created[0]
                  and w.current is w.created[0] and cur is w.created[0]
                  and w.created[0].cls == ENGINE_CLS[name])
            rep.check(ok, "selection", label, where,
                      f"after use('{name}'): outcome {outcome[0]} "
                      f"{getattr(outcome[1], 'exc', outcome[1])!r}, created {w.created}, current {w.current!r}",
                      key=f"use|{name}")
        scenario(f"use('{name}') instantiates that engine, makes it current and returns it",
                 lambda w, name=name: name, exp_name)

    def exp_bad(label, w, before, outcome, cur):
        ok = (outcome[0] == "raise" and outcome[1].exc.split(".")[-1] == "EngineNotFoundError"
              and w.current is before and cur is before and not w.stores)
        rep.check(ok, "selection", label, where,
                  f"after use('no-such-engine'): outcome {outcome[0]} "
                  f"{getattr(outcome[1], 'exc', '')}, selection {'unchanged' if w.current is before else 'CHANGED'}",
                  key="use|invalid")
    scenario("use('no-such-engine') raises EngineNotFoundError and leaves the selection unchanged",
             lambda w: "no-such-engine", exp_bad)
    # names that are not engines although they look like parts / combinations of engine names
    for bad_name in ("", "num", "cas", "casadi, numpy", "NumPy", "numpy "):
        def exp_bad2(label, w, before, outcome, cur, bad_name=bad_name):
            ok = (outcome[0] == "raise" and outcome[1].exc.split(".")[-1] == "EngineNotFoundError"
                  and w.current is before and cur is before and not w.stores)
            rep.check(ok, "selection", label, where,
                      f"after use({bad_name!r}): outcome {outcome[0]} {getattr(outcome[1], 'exc', outcome[1])!r}, "
                      f"selection {'unchanged' if w.current is before else 'CHANGED'}", key=f"use|invalid|{bad_name}")
        scenario(f"use({bad_name!r}) raises EngineNotFoundError and leaves the selection unchanged",
                 lambda w, bad_name=bad_name: bad_name, exp_bad2)

    # what a caller does with the dict get_available_engines() handed out is the caller's business
    gae = prog.function("sym_metanet.engines.core", "get_available_engines")

    def emptied(it, w):
        d = it.call_function(FuncV(gae), [], {})
        if isinstance(d, dict):
            d.clear()

    def extended(it, w):
        d = it.call_function(FuncV(gae), [], {})
        if isinstance(d, dict) and "numpy" in d:
            d["no-such-engine"] = d["numpy"]

    for name in ("casadi", "numpy"):
        def exp_name2(label, w, before, outcome, cur, name=name):
            ok = (outcome[0] == "return" and len(w.created) == 1 and w.current is w.created[0]
                  and w.created[0].cls == ENGINE_CLS[name])
            rep.check(ok, "selection", label, where,
                      f"outcome {outcome[0]} {getattr(outcome[1], 'exc', outcome[1])!r}: the names use() accepts "
                      "depend on what an earlier caller did to the dict it was given", key=f"use|{name}|emptied")
        scenario(f"use('{name}') after a caller emptied the dict returned by get_available_engines()",
                 lambda w, name=name: name, exp_name2, prelude=emptied)
    scenario("use('no-such-engine') after a caller added that key to the dict returned by get_available_engines()",
             lambda w: "no-such-engine", exp_bad, prelude=extended)

    # -------------------------------------------------------- (b) forwarding
    cks = wire_results(rep, "base") + wire_results(rep, "flags", impls=("casadi",))
    if not require_no_errors(rep, cks):
        return
    n_expl = n_cur = 0
    for ck in cks:
        cfg = ck.cfg
        lab = cfg.label()
        want = "ENGINE" if cfg.engine_arg == "explicit" else "CURRENT-ENGINE"
        bad = None
        for p in ck.paths:
            for e in p.events:
                if e[0] == "selection-store":
                    bad = (e[1], f"the selection is stored while stepping: {e[2]}", f"store|{_fn(e[1])}")
                    break
                if e[0] == "current-engine" and cfg.engine_arg == "explicit":
                    bad = (e[1], "get_current_engine() is consulted although an engine was passed explicitly "
                                 "(the engine was not forwarded to this call)", f"default|{_fn(e[1])}")
                    break
            if bad:
                break
            for name, via, where_, args in p.prims:
                if via is not None and via != want:
                    bad = (where_, f"`{name}` is dispatched on {via} instead of {want}",
                           f"dispatch|{name}|{_fn(where_)}")
                    break
            if bad:
                break
        if cfg.engine_arg == "explicit":
            n_expl += 1
        else:
            n_cur += 1
        if bad:
            rep.refuted("engine-honoured", lab, bad[0], bad[1], key=bad[2])
        else:
            rep.holds("engine-honoured", lab, "Network.step")
    # history: the variables of the final step are created by the engine of the final step,
    # whatever engine stepped the same objects before
    by = {ck.cfg: ck for ck in cks}
    from dataclasses import replace as _replace
    nh = 0
    for ck in cks:
        cfg = ck.cfg
        if not cfg.history:
            continue
        base = by.get(_replace(cfg, history=()))
        if base is None:
            continue
        nh += 1
        def var_calls(c):
            out = set()
            for p in c.paths:
                for name, via, where_, args in p.prims:
                    if name == "engine.var" and args:
                        out.add((args.get("name"), via))
            return out
        missing = var_calls(base) - var_calls(ck)
        rep.check(not missing, "engine-honoured-after-earlier-steps", cfg.label(), "init_vars",
                  f"variables {sorted(m[0] for m in missing)} are not re-created by the engine of this step: values "
                  "made by the engine of an earlier step leak into it", key=f"history|{sorted(m[0] for m in missing)[:2]}")
    rep.floor("configurations with an earlier step", nh, 4)
    rep.floor("configurations with an explicit engine", n_expl, 1000)
    rep.floor("configurations using the selected engine", n_cur, 10)


def _fn(where: str) -> str:
    return where.split(" ")[-1] if where else ""
