"""C13 - the selected engine is the default; an explicit engine is always honoured."""
from __future__ import annotations

from .. import expr as E
from ..core import Report
from ..interp import Builtin, ClassV, ExtMod, FuncV, Interp, Obj, Raised
from ..primcheck import PrimWorld
from ..wire import ENGINE_CLS
from .common import TRUSTED_WIRE, require_no_errors, wire_results

META = {
    "level": "other",
    "technique": "static analysis: abstract interpretation with engine-identity tracking (which engine object "
    "every primitive / variable / clamp call is dispatched on) + interpretation of use()/get_current_engine()",
    "rule": "obligations = (a) selection scenarios for engines.use: instance, valid names, invalid name - the "
    "returned/current engine and the unchanged selection after a refusal; (b) per configuration with an "
    "explicit engine: no get_current_engine() call on any path, every primitive/var/vcat/max dispatched on the "
    "explicit engine, the selection never stored; per configuration without an engine: everything dispatched "
    "on the current engine, selection never stored"
    "; sequences of two selections; engine names that are parts / joins of engine names; use() after a caller modified the dict returned by get_available_engines(); the import-time selection in sym_metanet/__init__.py interpreted with all / some / no engine importable",
    "explanation": "The abstract world has two distinguishable engine objects (explicit, currently selected); "
    "every engine-level call records the object it was reached through, on every path of Network.step over "
    "all local topology classes and element kinds.",
    "claim": "Forwarding of the engine at every call site on every path, the default only under `engine is "
    "None`, and the store discipline of the selection, for all element kinds and topology classes.",
    "level_note": "trusted: python ast; importlib.import_module returns the named module.",
}


ENGINE_MODS = {"casadi": "sym_metanet.engines.casadi", "numpy": "sym_metanet.engines.numpy"}


class SelWorld(PrimWorld):
    def __init__(self, prog):
        super().__init__(False)
        self.prog = prog
        self.current = Obj(ENGINE_CLS["casadi"], "E0", kind="engine")
        self.stores = []
        self.created = []

    def module_attr(self, it, modname, attr, node):
        if modname == "sym_metanet" and attr == "engine":
            return self.current
        return NotImplemented

    def on_module_store(self, it, modname, attr, v, node):
        if modname == "sym_metanet" and attr == "engine":
            self.current = v
            self.stores.append(v)
            return None
        it.event("other-module-store", node, f"{modname}.{attr}")
        return None

    def call_ext(self, it, name, args, kwargs, node):
        if name.endswith("import_module"):
            short_ = {v: k for k, v in ENGINE_MODS.items()}.get(args[0])
            if short_ in getattr(self, "unimportable", ()):
                raise Raised("ImportError", node, it.stack[-1].fi if it.stack else None, f"No module named {args[0]}")
            return ExtMod(args[0])
        if name == "warnings.warn":
            it.event("warning", node, f"warning issued: {args[0]!r}")
            return None
        return NotImplemented

    def construct(self, it, cv, args, kwargs, node):
        if cv.fq in ENGINE_CLS.values():
            o = Obj(cv.fq, f"new-{cv.fq.split('.')[-1]}", kind="engine")
            o.attrs["__ctor__"] = (tuple(args), dict(kwargs))
            self.created.append(o)
            return o
        cname = cv.fq.split(":")[1]
        if cname.endswith("Error"):
            return Obj(cv.fq, cname, kind="exception")
        return NotImplemented


def run(rep: Report) -> None:
    rep.trusted += TRUSTED_WIRE
    prog = rep.prog
    core = prog.module("sym_metanet.engines.core")
    use = prog.function("sym_metanet.engines.core", "use")
    gce = prog.function("sym_metanet.engines.core", "get_current_engine")
    where = f"{core.relpath}:{use.node.lineno} use"

    # ------------------------------------------------------------ (a) use()
    def scenario(label, arg, expect, prelude=None):
        w = SelWorld(prog)
        it = Interp(prog, w)
        if prelude is not None:
            prelude(it, w)
        before = w.current
        try:
            ret = it.call_function(FuncV(use), [arg(w)], {})
            outcome = ("return", ret)
        except Raised as e:
            outcome = ("raise", e)
        cur = it.call_function(FuncV(gce), [], {})
        expect(label, w, before, outcome, cur)

    def exp_instance(label, w, before, outcome, cur):
        ok = outcome[0] == "return" and outcome[1] is w.inst and w.current is w.inst and cur is w.inst
        rep.check(ok, "selection", label, where,
                  f"after use(instance): returned {outcome[1]!r}, current {w.current!r}", key="use|instance")

    def mk_inst(w):
        w.inst = Obj(ENGINE_CLS["numpy"], "E1", kind="engine")
        return w.inst

    scenario("use(engine instance) makes it current and returns it", mk_inst, exp_instance)
    for name in ("casadi", "numpy"):
        def exp_name(label, w, before, outcome, cur, name=name):
            ok = (outcome[0] == "return" and len(w.created) == 1 and outcome[1] is w.created[0]
                  and w.current is w.created[0] and cur is w.created[0]
                  and w.created[0].cls == ENGINE_CLS[name])
            rep.check(ok, "selection", label, where,
                      f"after use('{name}'): outcome {outcome[0]} "
                      f"{getattr(outcome[1], 'exc', outcome[1])!r}, created {w.created}, current {w.current!r}",
                      key=f"use|{name}")
        scenario(f"use('{name}') instantiates that engine, makes it current and returns it",
                 lambda w, name=name: name, exp_name)

    def exp_bad(label, w, before, outcome, cur):
        ok = (outcome[0] == "raise" and outcome[1].exc.split(".")[-1] == "EngineNotFoundError"
              and w.current is before and cur is before and not w.stores)
        rep.check(ok, "selection", label, where,
                  f"after use('no-such-engine'): outcome {outcome[0]} "
                  f"{getattr(outcome[1], 'exc', '')}, selection {'unchanged' if w.current is before else 'CHANGED'}",
                  key="use|invalid")
    scenario("use('no-such-engine') raises EngineNotFoundError and leaves the selection unchanged",
             lambda w: "no-such-engine", exp_bad)
    # names that are not engines although they look like parts / combinations of engine names
    for bad_name in ("", "num", "cas", "casadi, numpy", "NumPy", "numpy "):
        def exp_bad2(label, w, before, outcome, cur, bad_name=bad_name):
            ok = (outcome[0] == "raise" and outcome[1].exc.split(".")[-1] == "EngineNotFoundError"
                  and w.current is before and cur is before and not w.stores)
            rep.check(ok, "selection", label, where,
                      f"after use({bad_name!r}): outcome {outcome[0]} {getattr(outcome[1], 'exc', outcome[1])!r}, "
                      f"selection {'unchanged' if w.current is before else 'CHANGED'}", key=f"use|invalid|{bad_name}")
        scenario(f"use({bad_name!r}) raises EngineNotFoundError and leaves the selection unchanged",
                 lambda w, bad_name=bad_name: bad_name, exp_bad2)

    # sequences of selections: each selection stands on its own
    def sequence(label, steps, expect, key):
        w = SelWorld(prog)
        it = Interp(prog, w)
        outcomes = []
        for arg, a, kw in steps:
            try:
                outcomes.append(("return", it.call_function(FuncV(use), [arg(w)] + list(a), dict(kw))))
            except Raised as e:
                outcomes.append(("raise", e))
        cur = it.call_function(FuncV(gce), [], {})
        ok, why = expect(w, outcomes, cur)
        rep.check(ok, "selection", label, where, why, key=f"seq|{key}")

    def exp_second_fresh(w, outs, cur):
        ok = (len(w.created) == 2 and outs[1][0] == "return" and outs[1][1] is w.created[1] and cur is w.created[1]
              and w.created[1].cls == ENGINE_CLS["casadi"] and w.created[1].attrs["__ctor__"] == ((), {}))
        return ok, (f"created {[(c.cls.split('.')[-1], c.attrs['__ctor__']) for c in w.created]}, current {cur!r}: the "
                    "second selection must build a new engine with the default configuration")
    sequence("use('casadi', sym_type='MX') then use('casadi'): a new default engine is built and selected",
             [(lambda w: "casadi", [], {"sym_type": "MX"}), (lambda w: "casadi", [], {})], exp_second_fresh, "name-name")
    sequence("use('casadi', 'MX') then use('casadi'): a new default engine is built and selected",
             [(lambda w: "casadi", ["MX"], {}), (lambda w: "casadi", [], {})], exp_second_fresh, "name-pos-name")

    def exp_other(w, outs, cur):
        ok = (len(w.created) == 2 and cur is w.created[1] and w.created[1].cls == ENGINE_CLS["numpy"]
              and outs[1][0] == "return" and outs[1][1] is w.created[1])
        return ok, f"after use('casadi'); use('numpy'): created {[c.cls for c in w.created]}, current {cur!r}"
    sequence("use('casadi') then use('numpy') selects a NumPy engine",
             [(lambda w: "casadi", [], {}), (lambda w: "numpy", [], {})], exp_other, "casadi-numpy")

    def exp_inst_then_bad(w, outs, cur):
        ok = (outs[0][0] == "return" and outs[1][0] == "raise"
              and outs[1][1].exc.split(".")[-1] == "EngineNotFoundError" and cur is w.inst and len(w.stores) == 1)
        return ok, f"after use(instance); use('nope'): outcomes {[o[0] for o in outs]}, current {cur!r}"
    sequence("use(instance) then use('nope'): refused, the instance stays selected",
             [(mk_inst, [], {}), (lambda w: "nope", [], {})], exp_inst_then_bad, "inst-bad")

    def exp_name_then_inst(w, outs, cur):
        ok = outs[1][0] == "return" and outs[1][1] is w.inst and cur is w.inst and len(w.created) == 1
        return ok, f"after use('numpy'); use(instance): current {cur!r}, created {len(w.created)}"
    sequence("use('numpy') then use(instance): the instance is selected",
             [(lambda w: "numpy", [], {}), (mk_inst, [], {})], exp_name_then_inst, "name-inst")

    # what a caller does with the dict get_available_engines() handed out is the caller's business
    gae = prog.function("sym_metanet.engines.core", "get_available_engines")

    def emptied(it, w):
        d = it.call_function(FuncV(gae), [], {})
        if isinstance(d, dict):
            d.clear()

    def extended(it, w):
        d = it.call_function(FuncV(gae), [], {})
        if isinstance(d, dict) and "numpy" in d:
            d["no-such-engine"] = d["numpy"]

    for name in ("casadi", "numpy"):
        def exp_name2(label, w, before, outcome, cur, name=name):
            ok = (outcome[0] == "return" and len(w.created) == 1 and w.current is w.created[0]
                  and w.created[0].cls == ENGINE_CLS[name])
            rep.check(ok, "selection", label, where,
                      f"outcome {outcome[0]} {getattr(outcome[1], 'exc', outcome[1])!r}: the names use() accepts "
                      "depend on what an earlier caller did to the dict it was given", key=f"use|{name}|emptied")
        scenario(f"use('{name}') after a caller emptied the dict returned by get_available_engines()",
                 lambda w, name=name: name, exp_name2, prelude=emptied)
    scenario("use('no-such-engine') after a caller added that key to the dict returned by get_available_engines()",
             lambda w: "no-such-engine", exp_bad, prelude=extended)

    # ---------------------------------------- (a') the selection made when the package is imported
    # The module-level statements of sym_metanet/__init__.py that choose the default engine are
    # interpreted: the first engine of get_available_engines() whose module can be imported
    # is selected (once), a warning is issued only if none can.
    import ast as _ast

    from ..front import FunctionInfo

    pkg = prog.module("sym_metanet")
    # every module-level statement except imports, definitions, `__all__` and `del`
    body = [st for st in pkg.tree.body
            if not isinstance(st, (_ast.Import, _ast.ImportFrom, _ast.FunctionDef, _ast.ClassDef, _ast.Delete))
            and not (isinstance(st, _ast.Assign) and any(isinstance(t, _ast.Name) and t.id.startswith("__")
                                                         for t in st.targets))
            and not (isinstance(st, _ast.Expr) and isinstance(st.value, _ast.Constant))]
    has_loop = bool(body)
    rep.floor("module-level selection statements in sym_metanet/__init__.py", len(body), 1)
    order = None
    try:
        w0 = SelWorld(prog)
        order = list(Interp(prog, w0).call_function(FuncV(gae), [], {}))
    except Raised:
        order = None
    if order is None or not has_loop:
        rep.undecided("import-selection", "sym_metanet/__init__.py", pkg.relpath,
                      "cannot find the engine-selection loop / the available engines")
    else:
        fn_node = _ast.FunctionDef(name="<import sym_metanet>", args=_ast.arguments(
            posonlyargs=[], args=[], kwonlyargs=[], kw_defaults=[], defaults=[]), body=body, decorator_list=[],
            lineno=1, col_offset=0)
        _ast.fix_missing_locations(fn_node)
        fi0 = FunctionInfo("sym_metanet", "<import sym_metanet>", fn_node)
        for missing in ([], order[:1], list(order)):
            w = SelWorld(prog)
            w.unimportable = set(missing)
            w.current = None
            it = Interp(prog, w)
            label = ("import sym_metanet" + (f" when {', '.join(missing)} cannot be imported" if missing else ""))
            try:
                it.call_function(FuncV(fi0), [], {})
                outcome = None
            except Raised as e:
                outcome = e
            expect = next((n for n in order if n not in missing), None)
            warned = [e for e in it.events if e.kind == "warning"]
            if outcome is not None:
                rep.refuted("import-selection", label, pkg.relpath, f"importing the package raises {outcome.exc}: {outcome.msg}",
                            key=f"import|raise|{len(missing)}")
            elif expect is None:
                rep.check(w.current is None and not w.stores and bool(warned), "import-selection", label, pkg.relpath,
                          f"no engine can be imported: selection {w.current!r}, warnings {len(warned)}",
                          key="import|none")
            else:
                ok = (len(w.created) == 1 and w.current is w.created[0] and w.created[0].cls == ENGINE_CLS[expect]
                      and len(w.stores) == 1 and not warned)
                rep.check(ok, "import-selection", label, pkg.relpath,
                          f"expected the first importable engine `{expect}` to be selected once, silently: created "
                          f"{[c.cls.split('.')[-1] for c in w.created]}, {len(w.stores)} selection store(s), "
                          f"{len(warned)} warning(s), current {w.current!r}", key=f"import|{expect}")

    # -------------------------------------------------------- (b) forwarding
    cks = wire_results(rep, "base") + wire_results(rep, "flags", impls=("casadi",))
    if not require_no_errors(rep, cks):
        return
    n_expl = n_cur = 0
    for ck in cks:
        cfg = ck.cfg
        lab = cfg.label()
        want = "ENGINE" if cfg.engine_arg == "explicit" else "CURRENT-ENGINE"
        bad = None
        for p in ck.paths:
            for e in p.events:
                if e[0] == "selection-store":
                    bad = (e[1], f"the selection is stored while stepping: {e[2]}", f"store|{_fn(e[1])}")
                    break
                if e[0] == "current-engine" and cfg.engine_arg == "explicit":
                    bad = (e[1], "get_current_engine() is consulted although an engine was passed explicitly "
                                 "(the engine was not forwarded to this call)", f"default|{_fn(e[1])}")
                    break
            if bad:
                break
            for name, via, where_, args in p.prims:
                if via is not None and via != want:
                    bad = (where_, f"`{name}` is dispatched on {via} instead of {want}",
                           f"dispatch|{name}|{_fn(where_)}")
                    break
            if bad:
                break
        if cfg.engine_arg == "explicit":
            n_expl += 1
        else:
            n_cur += 1
        if bad:
            rep.refuted("engine-honoured", lab, bad[0], bad[1], key=bad[2])
        else:
            rep.holds("engine-honoured", lab, "Network.step")
    # history: the variables of the final step are created by the engine of the final step,
    # whatever engine stepped the same objects before
    by = {ck.cfg: ck for ck in cks}
    from dataclasses import replace as _replace
    nh = 0
    for ck in cks:
        cfg = ck.cfg
        if not cfg.history:
            continue
        base = by.get(_replace(cfg, history=()))
        if base is None:
            continue
        nh += 1
        def var_calls(c):
            out = set()
            for p in c.paths:
                for name, via, where_, args in p.prims:
                    if name == "engine.var" and args:
                        out.add((args.get("name"), via))
            return out
        missing = var_calls(base) - var_calls(ck)
        rep.check(not missing, "engine-honoured-after-earlier-steps", cfg.label(), "init_vars",
                  f"variables {sorted(m[0] for m in missing)} are not re-created by the engine of this step: values "
                  "made by the engine of an earlier step leak into it", key=f"history|{sorted(m[0] for m in missing)[:2]}")
    rep.floor("configurations with an earlier step", nh, 4)
    rep.floor("configurations with an explicit engine", n_expl, 1000)
    rep.floor("configurations using the selected engine", n_cur, 10)


def _fn(where: str) -> str:
    return where.split(" ")[-1] if where else ""
