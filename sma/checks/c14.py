"""C14 - dynamics are invariant to construction order, names and turn-rate scaling."""
from __future__ import annotations

import ast

from .. import expr as E
from .. import model as M
from ..core import Report
from ..front import walk_no_nested
from .common import TRUSTED_WIRE, cfg_class, require_no_errors, wire_results

META = {
    "level": "other",
    "technique": "static analysis: order-sensitivity events and symmetric-consumption typing in the abstract "
    "interpretation, degree-0 homogeneity by substitution on normal forms, metamorphic comparison of "
    "interpreted concrete networks under renaming / reversed construction order, identity-key AST rule",
    "rule": "obligations = per configuration: no member is singled out of a multi-member neighbourhood and no "
    "sorted()/reversed() is applied (order), neighbourhood families are consumed only under sums (enforced "
    "by the term language), scaling all turn rates of the links leaving the upstream node by c leaves every "
    "next state unchanged; on six concrete networks: renaming all elements and reversing the insertion "
    "order of nodes and edges leaves every element's next state the same term; no element class defines "
    "__eq__/__hash__"
    "; all elements sharing one name with caller-supplied variables; state dictionaries not aliased to caller dictionaries; constructors do not take the truth value of a parameter",
    "explanation": "Collections of entering/leaving links are abstract families; the only operations the "
    "interpretation accepts on them are membership-independent (len, any, iteration into a family consumed by "
    "a sum). Picking `first`/`next(iter())` from a family with several members, or reordering one, is "
    "recorded. Turn-rate scaling is a substitution on the result terms compared by normal form.",
    "claim": "Per-element next states cannot depend on insertion order of neighbours, on element names, or on "
    "a common factor of the turn rates at a node, on any topology class.",
    "level_note": "not decided: argument order of the compiled function (C04). trusted: python ast.",
}


def run(rep: Report) -> None:
    rep.trusted += TRUSTED_WIRE
    prog = rep.prog
    cks = wire_results(rep, "base")
    if not require_no_errors(rep, cks):
        return
    n_scale = 0
    for ck in cks:
        cfg = ck.cfg
        lab = cfg.label()
        bad = None
        for p in ck.paths:
            for e in p.events:
                if e[0] in ("order-pick", "reorder", "state-dict-aliased", "value-set", "global-state-store"):
                    # (an aliased state dictionary makes the result depend on the order in
                    # which the elements are stepped)
                    bad = e
                    break
            if bad:
                break
        if bad:
            rep.refuted("order-insensitive", lab, bad[1], bad[2], key=f"{bad[0]}|{_fn(bad[1])}")
        else:
            rep.holds("order-insensitive", lab, "Network.step")
        # (e) scaling of the turn rates at U
        if cfg.u_out != "many":
            continue
        for p in ck.paths:
            if p.raised:
                continue
            n_scale += 1
            c = E.S("scale")
            mapping = {E.S("SELF.turnrate"): E.mul(c, E.S("SELF.turnrate")),
                       E.S("UOUT*.turnrate"): E.mul(c, E.S("UOUT*.turnrate"))}
            f = M.domain_facts()
            f.add_sym_rule(lambda key: key == ("s", "scale"), ">0")
            nz = M.Normalizer(f)
            env = E.Env(p.n1)
            ok, detail = True, ""
            for role, vs in p.outputs.items():
                for var, t in vs.items():
                    if not E.is_term(t):
                        continue
                    try:
                        mm = M.compare(M.subst(t, mapping), t, env, nz)
                    except E.ShapeError as ex:
                        mm = [("shape", str(ex), "")]
                    if mm:
                        ok = False
                        detail = (f"next {var} of {role} at {mm[0][0]} changes when the turn rates of all links "
                                  f"leaving the node are multiplied by a common factor: scaled = {mm[0][1][:300]} | "
                                  f"original = {mm[0][2][:300]}")
                        break
                if not ok:
                    break
            rep.check(ok, "turnrate-scale-invariance", lab, "Node.get_upstream_speed_and_flow", detail,
                      key=f"scale|{cfg_class(cfg)}|{cfg.impl}")
            # the share is present: the first-segment density update depends on the link's own
            # turn rate and on the leaving family's turn rates
            t = p.outputs.get("SELF", {}).get("rho")
            if E.is_term(t):
                nz2 = M.make_normalizer(cfg, with_domain=False)
                pos = None if cfg.n1 else ("first", 0)
                sup = M.support(t, pos, env, nz2)
                need = {("s", "SELF.turnrate"), ("s", "UOUT*.turnrate")}
                rep.check(need <= sup, "turnrate-share-present", lab, "Node.get_upstream_speed_and_flow",
                          "several links leave the node but the inflow of this link does not depend on "
                          f"{sorted(k[1] for k in need - sup)}: the node inflow is not split by turn rates",
                          key=f"share|{cfg_class(cfg)}|{cfg.impl}")
    rep.floor("bifurcation configurations checked for scale invariance", n_scale, 100)

    # (a) names and construction order: metamorphic comparison on concrete networks.
    # The same network is interpreted with (i) other element names in another
    # alphabetical order, (ii) nodes and edges inserted in the reverse order; every
    # element's next state must be the same term.
    from .. import balance as B
    from ..gworld import GraphV
    from ..interp import Raised

    n_meta = 0
    for impl in ("casadi", "numpy") if rep.tier == "thorough" else ("casadi",):
        base_outputs = {}
        for variant in ("base", "renamed", "reversed-construction", "renamed+reversed",
                        "all links / origins / destinations share one name, variables supplied by the caller"):
            for name, gw in B.networks(prog, impl):
                ic = None
                if "share one name" in variant:
                    for ident, o in gw.roles.items():
                        o.attrs["name"] = {"link": "x", "origin": "o", "dest": "d"}.get(o.kind, "x")
                    ic = B.caller_variables(gw)
                if "renamed" in variant:
                    gw.name_alias = {}
                    for i, (ident, o) in enumerate(sorted(gw.roles.items())):
                        nm = f"{chr(ord('z') - i % 26)}{i}x"
                        o.attrs["name"] = nm
                        gw.name_alias[nm] = ident
                    for i, nd in enumerate(list(gw.graph.node)):
                        nd.attrs["name"] = f"node{99 - i}"
                if "reversed" in variant:
                    g = gw.graph
                    g2 = GraphV()
                    for nd in reversed(list(g.node)):
                        g2.add_node(nd, **g.node[nd])
                    for u, v, d in reversed(g.out_edges()):
                        g2.add_edge(u, v, **d)
                    gw.graph = g2
                    gw.net.attrs["_graph"] = g2
                try:
                    it = B.step(prog, gw, init_conditions=ic)
                except Raised as e:
                    rep.refuted("invariance", f"{impl}: {name} [{variant}]", "Network.step",
                                f"stepping raises {e.exc}: {e.msg}", key=f"meta|raise|{variant}")
                    continue
                outs = {}
                for ident, o in gw.roles.items():
                    ns = o.attrs.get("next_states")
                    if isinstance(ns, dict):
                        outs[ident] = {k: v.t for k, v in ns.items()}
                if variant == "base":
                    base_outputs[name] = (outs, gw.env)
                    continue
                n_meta += 1
                ref, env = base_outputs[name]
                nz = M.make_normalizer(None, with_domain=False)
                ok, detail = True, ""
                for ident, vs in ref.items():
                    for var, t in vs.items():
                        got = outs.get(ident, {}).get(var)
                        if got is None:
                            ok, detail = False, f"no next {var} of {ident}"
                            continue
                        try:
                            mm = M.compare(got, t, env, nz)
                        except E.ShapeError as ex:
                            mm = [("shape", str(ex), "")]
                        if mm:
                            ok = False
                            detail = (f"next {var} of {ident} at {mm[0][0]} differs: {variant} = {mm[0][1][:250]} | "
                                      f"reference = {mm[0][2][:250]}")
                rep.check(ok, "invariance", f"{impl}: {name} [{variant}]", "Network.step", detail,
                          key=f"meta|{variant}|{name.split('(')[0]}")
    rep.floor("metamorphic network variants", n_meta, 15)
    # (b) identity keys
    base = "sym_metanet.blocks.base:ElementBase"
    n_cls = 0
    for fq in prog.subclasses(base):
        ci = prog.classes[fq]
        n_cls += 1
        bad = [m for m in ("__eq__", "__hash__", "__lt__") if m in ci.methods]
        rep.check(not bad, "identity-keys", f"class {ci.name}", f"{prog.modules[ci.module].relpath}:{ci.node.lineno}",
                  f"{ci.name} defines {bad}: elements would be keyed by value/name instead of identity",
                  key=f"eq|{ci.name}")
    rep.floor("element classes", n_cls, 10)
    # turn rates given to the constructors reach the slot the node rule reads
    from .. import ctor

    ctor.check(rep, groups=("link", "vsl"))
    # the next states do not depend on how the network was put together: mainline first, validated and stepped, then a branch attached to an interior node
    # (CPython caching of the lookups and views, real invalidation) vs. the same network built in one go
    from .. import balance as _B

    _bad = _B.incremental_vs_direct(rep.prog)
    rep.check(not _bad, "construction-history-invariance", "merge network built incrementally (validated and stepped in between) vs in one go",
              "Network.step", "; ".join(_bad[:2]), key="incremental")



def _fn(where: str) -> str:
    return where.split(" ")[-1] if where else ""
