"""C14 - dynamics are invariant to construction order, names and turn-rate scaling."""
from __future__ import annotations

import ast

from .. import expr as E
from .. import model as M
from ..core import Report
from ..front import walk_no_nested
from .common import TRUSTED_WIRE, cfg_class, require_no_errors, wire_results

META = {
    "level": "other",
    "technique": "static analysis: order-sensitivity events and symmetric-consumption typing in the abstract "
    "interpretation, degree-0 homogeneity by substitution on normal forms, name-taint and identity-key AST rules",
    "rule": "obligations = per configuration: no member is singled out of a multi-member neighbourhood and no "
    "sorted()/reversed() is applied (order), neighbourhood families are consumed only under sums (enforced "
    "by the term language), scaling all turn rates of the links leaving the upstream node by c leaves every "
    "next state unchanged; package-wide: `.name` flows only into labels/messages, no element class defines "
    "__eq__/__hash__",
    "explanation": "Collections of entering/leaving links are abstract families; the only operations the "
    "interpretation accepts on them are membership-independent (len, any, iteration into a family consumed by "
    "a sum). Picking `first`/`next(iter())` from a family with several members, or reordering one, is "
    "recorded. Turn-rate scaling is a substitution on the result terms compared by normal form.",
    "claim": "Per-element next states cannot depend on insertion order of neighbours, on element names, or on "
    "a common factor of the turn rates at a node, on any topology class.",
    "level_note": "not decided: argument order of the compiled function (C04). trusted: python ast.",
}


def run(rep: Report) -> None:
    rep.trusted += TRUSTED_WIRE
    prog = rep.prog
    cks = wire_results(rep, "base")
    if not require_no_errors(rep, cks):
        return
    n_scale = 0
    for ck in cks:
        cfg = ck.cfg
        lab = cfg.label()
        bad = None
        for p in ck.paths:
            for e in p.events:
                if e[0] in ("order-pick", "reorder"):
                    bad = e
                    break
            if bad:
                break
        if bad:
            rep.refuted("order-insensitive", lab, bad[1], bad[2], key=f"{bad[0]}|{_fn(bad[1])}")
        else:
            rep.holds("order-insensitive", lab, "Network.step")
        # (e) scaling of the turn rates at U
        if cfg.u_out != "many":
            continue
        for p in ck.paths:
            if p.raised:
                continue
            n_scale += 1
            c = E.S("scale")
            mapping = {E.S("SELF.turnrate"): E.mul(c, E.S("SELF.turnrate")),
                       E.S("UOUT*.turnrate"): E.mul(c, E.S("UOUT*.turnrate"))}
            f = M.domain_facts()
            f.add_sym_rule(lambda key: key == ("s", "scale"), ">0")
            nz = M.Normalizer(f)
            env = E.Env(p.n1)
            ok, detail = True, ""
            for role, vs in p.outputs.items():
                for var, t in vs.items():
                    if not E.is_term(t):
                        continue
                    try:
                        mm = M.compare(M.subst(t, mapping), t, env, nz)
                    except E.ShapeError as ex:
                        mm = [("shape", str(ex), "")]
                    if mm:
                        ok = False
                        detail = (f"next {var} of {role} at {mm[0][0]} changes when the turn rates of all links "
                                  f"leaving the node are multiplied by a common factor: scaled = {mm[0][1][:300]} | "
                                  f"original = {mm[0][2][:300]}")
                        break
                if not ok:
                    break
            rep.check(ok, "turnrate-scale-invariance", lab, "Node.get_upstream_speed_and_flow", detail,
                      key=f"scale|{cfg_class(cfg)}|{cfg.impl}")
            # the share is present: the first-segment density update depends on the link's own
            # turn rate and on the leaving family's turn rates
            t = p.outputs.get("SELF", {}).get("rho")
            if E.is_term(t):
                nz2 = M.make_normalizer(cfg, with_domain=False)
                pos = None if cfg.n1 else ("first", 0)
                sup = M.support(t, pos, env, nz2)
                need = {("s", "SELF.turnrate"), ("s", "UOUT*.turnrate")}
                rep.check(need <= sup, "turnrate-share-present", lab, "Node.get_upstream_speed_and_flow",
                          "several links leave the node but the inflow of this link does not depend on "
                          f"{sorted(k[1] for k in need - sup)}: the node inflow is not split by turn rates",
                          key=f"share|{cfg_class(cfg)}|{cfg.impl}")
    rep.floor("bifurcation configurations checked for scale invariance", n_scale, 100)

    # (a) names: `.name` loads in the dynamics flow only into labels / messages
    mods = [m for m in prog.modules if m.startswith("sym_metanet.blocks") or m in (
        "sym_metanet.engines.numpy", "sym_metanet.engines.casadi", "sym_metanet.network")]
    n_names = 0
    for mname in mods:
        mi = prog.modules[mname]
        parents = {}
        for pnode in ast.walk(mi.tree):
            for c in ast.iter_child_nodes(pnode):
                parents[c] = pnode
        for fn in [f for f in prog.all_functions() if f.module == mname]:
            if mname == "sym_metanet.network" and fn.name not in ("step", "elements", "states", "next_states",
                                                                  "actions", "disturbances"):
                continue
            if fn.name in ("__repr__", "__str__", "__init__"):
                continue
            for node in walk_no_nested(fn.node):
                if isinstance(node, ast.Attribute) and node.attr == "name" and isinstance(node.ctx, ast.Load):
                    n_names += 1
                    ok = _is_label_use(node, parents)
                    rep.check(ok, "names-are-labels", f"`{ast.unparse(node)}` in {fn.qualname}",
                              f"{mi.relpath}:{node.lineno} {fn.qualname}",
                              "an element name is used for something other than a variable label or a "
                              "message: renaming elements can change the result", key=f"name|{fn.qualname}")
    rep.floor("uses of .name in the dynamics/compilation", n_names, 10)
    # (b) identity keys
    base = "sym_metanet.blocks.base:ElementBase"
    n_cls = 0
    for fq in prog.subclasses(base):
        ci = prog.classes[fq]
        n_cls += 1
        bad = [m for m in ("__eq__", "__hash__", "__lt__") if m in ci.methods]
        rep.check(not bad, "identity-keys", f"class {ci.name}", f"{prog.modules[ci.module].relpath}:{ci.node.lineno}",
                  f"{ci.name} defines {bad}: elements would be keyed by value/name instead of identity",
                  key=f"eq|{ci.name}")
    rep.floor("element classes", n_cls, 10)


def _is_label_use(node, parents) -> bool:
    cur = node
    while cur in parents:
        p = parents[cur]
        if isinstance(p, ast.JoinedStr):
            # f-string: fine if it ends up as the name argument of engine.var, in a raise /
            # message, or in a names list of the compilation helpers
            q = p
            while q in parents:
                pp = parents[q]
                if isinstance(pp, ast.Call):
                    f = pp.func
                    if isinstance(f, ast.Attribute) and f.attr == "var" and pp.args and pp.args[0] is q:
                        return True
                    if isinstance(f, ast.Attribute) and f.attr == "append":
                        recv = ast.unparse(f.value)
                        if "name" in recv or "msg" in recv:
                            return True
                    if isinstance(f, ast.Name) and f.id.endswith(("Error", "Warning")):
                        return True
                    if isinstance(f, ast.Attribute) and f.attr.endswith(("Error", "Warning")):
                        return True
                if isinstance(pp, ast.Raise):
                    return True
                if isinstance(pp, (ast.FunctionDef, ast.Module)):
                    break
                q = pp
            return False
        if isinstance(p, ast.BinOp) and isinstance(p.op, ast.Add):
            cur = p
            continue
        if isinstance(p, ast.Call) and isinstance(p.func, ast.Attribute) and p.func.attr == "append":
            recv = ast.unparse(p.func.value)
            return "name" in recv or "msg" in recv
        if isinstance(p, (ast.FunctionDef, ast.Module)):
            return False
        cur = p
    return False


def _fn(where: str) -> str:
    return where.split(" ")[-1] if where else ""
