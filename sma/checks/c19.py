"""C19 - a function is only produced for a fully initialised and stepped network."""
from __future__ import annotations

import ast

from .. import compile as CP
from ..core import Report
from ..front import walk_no_nested
from .. import expr as E
from ..interp import Raised, TV

META = {
    "level": "other",
    "technique": "static analysis: typestate - abstract interpretation of to_function's readiness scan over "
    "every element kind x typestate, declaration/initialisation agreement per class, who-may-write rule",
    "rule": "obligations = (a) for each element of a 7-element network and each typestate (ready / not stepped / "
    "not initialised / one variable group missing) x symbol type: to_function raises RuntimeError exactly when "
    "some declared group is uninitialised or a state-carrying element is unstepped; (b) per concrete class: "
    "after the real init_vars a group is non-None iff the class declares it non-empty, after the real step "
    "next_states is non-None iff it declares states; (c) states/actions/disturbances are assigned only in "
    "__init__/init_vars and next_states only in __init__/ElementWithVars.step; (d) the Function options do "
    "not allow free symbols"
    "; (b') a step whose dynamics raise leaves next_states None; the scan on a network with two links of the same name; writers may be private helpers only called from the allowed writers"
    "; the results of the most recent step are what remains after earlier steps (history independence)",
    "explanation": "The scan of Engine.to_function is interpreted from source for every (element, typestate) "
    "pair after the real Network.step has been interpreted on the network; the expected verdict comes from "
    "the class-level declarations. Writers of the typestate fields are found by a package-wide AST rule.",
    "claim": "The readiness scan covers every element and every variable group, for every element kind, and "
    "the fields it inspects can only change through init_vars / step; stale next states after a "
    "re-initialisation are left to CasADi's free-symbol rejection, which is not disabled.",
    "level_note": "trusted: CasADi raises on free symbols unless allow_free is set; graph/CasADi models in "
    "sma/gworld.py and sma/compile.py. Not decided: histories in which a state-less element is added later.",
}

GROUPS = ("states", "actions", "disturbances")


def declared_of(prog, cls_fq):
    out = {}
    for g in GROUPS:
        node, _ = prog.lookup_class_attr(cls_fq, "_" + g)
        val = False
        if isinstance(node, (ast.Set, ast.List, ast.Tuple)):
            val = len(node.elts) > 0
        elif isinstance(node, ast.Dict):
            val = len(node.keys) > 0
        elif isinstance(node, ast.Call):
            val = bool(node.args)
        out[g] = val
    return out


def run(rep: Report) -> None:
    prog = rep.prog
    rel = prog.module("sym_metanet.engines.casadi").relpath
    fi = prog.function("sym_metanet.engines.casadi", "Engine.to_function")
    where = f"{rel}:{fi.node.lineno} Engine.to_function"
    rep.trusted += ["python ast", "CasADi rejects free symbols unless allow_free", "models in sma/gworld.py, sma/compile.py"]

    # ------------------------------------------------ (b) declaration <=> initialisation
    net0 = CP.build_network(prog, "SX")
    try:
        CP.run_step(prog, net0)
        stepped_ok = True
    except Raised as e:
        stepped_ok = False
        rep.refuted("step-makes-ready", "Network.step on the reference network", where,
                    f"raises {e.exc}: {e.msg}", key=f"step-raise|{e.exc}")
    els0 = net0.links + net0.origins + net0.dests
    if stepped_ok:
        for el in els0:
            decl = declared_of(prog, el.cls)
            cname = el.cls.split(":")[1]
            for g in GROUPS:
                has = el.attrs.get(g) is not None
                rep.check(has == decl[g], "declared-iff-initialised", f"{cname}.{g}",
                          f"class {cname}",
                          f"class {cname} declares `{g}` {'non-empty' if decl[g] else 'empty'} but after "
                          f"init_vars `{g}` is {'set' if has else 'None'}: the readiness scan keys on the declaration",
                          key=f"decl|{cname}|{g}")
            hasn = el.attrs.get("next_states") is not None
            rep.check(hasn == decl["states"] or (hasn and not decl["states"] and el.attrs["next_states"] == {}),
                      "stepped-iff-states", f"{cname}.next_states", f"class {cname}",
                      f"{cname} declares states={decl['states']} but after Network.step next_states is "
                      f"{'set' if hasn else 'None'}", key=f"decl-next|{cname}")

    # ------------------------------------------------------------ (a) the scan
    n = 0
    typestates = ["ready", "unstepped", "uninitialised", "no-states", "no-actions", "no-disturbances"]
    for st, same in (("SX", False), ("MX", False), ("SX", True)):
        # (same: two links carry the same name - names are labels, not identities)
        net_probe = CP.build_network(prog, st)
        nel = len(net_probe.links + net_probe.origins + net_probe.dests)
        for idx in range(nel):
            for ts in typestates:
                if same and (idx >= len(net_probe.links) or ts not in ("unstepped", "uninitialised", "ready")):
                    continue
                net = CP.build_network(prog, st, same_names=same)
                CP.set_opaque_states(net)
                els = net.links + net.origins + net.dests
                el = els[idx]
                decl = declared_of(prog, el.cls)
                # bring every element to 'ready' according to its declaration
                for e2 in els:
                    d2 = declared_of(prog, e2.cls)
                    for g in GROUPS:
                        if not d2[g]:
                            e2.attrs[g] = None
                    if not d2["states"]:
                        e2.attrs["next_states"] = None
                if ts == "unstepped":
                    el.attrs["next_states"] = None
                elif ts == "uninitialised":
                    for g in GROUPS + ("next_states",):
                        el.attrs[g] = None
                elif ts.startswith("no-"):
                    el.attrs[ts[3:]] = None
                missing = [g for g in GROUPS if decl[g] and el.attrs.get(g) is None]
                expected_raise = bool(missing) or (decl["states"] and el.attrs.get("next_states") is None)
                cname = el.cls.split(":")[1]
                label = f"{st}{' duplicate-names' if same else ''}: {cname} `{el.ident}` (element {idx + 1} of {nel}) {ts}"
                r = CP.to_function(prog, net, compact=0, scan_only=True)
                n += 1
                if r[0] == "raise":
                    exc = r[1].exc.split(".")[-1]
                    if expected_raise:
                        rep.check(exc == "RuntimeError", "scan-raises", label, where,
                                  f"raises {exc} instead of RuntimeError", key=f"scan-exc|{cname}|{ts}")
                    else:
                        rep.refuted("scan-accepts-ready", label, where,
                                    f"a ready network is refused with {exc}: {r[1].msg}",
                                    key=f"scan-false|{cname}|{ts}")
                else:
                    if expected_raise:
                        rep.refuted("scan-raises", label, where,
                                    f"`{el.ident}` has {'uninitialised ' + ', '.join(missing) if missing else 'no next state'} "
                                    "but the readiness scan lets the compilation proceed",
                                    key=f"scan-miss|{cname}|{ts}")
                    else:
                        rep.holds("scan-accepts-ready", label, where)
    rep.analysed["scan_scenarios"] = n
    rep.floor("scan scenarios", n, 60)

    # ------------------------- (b') a step that fails leaves the element un-stepped
    # (`has_next_states` is what the readiness scan trusts: it must not become true before
    # the dynamics have produced the next states)
    n_fail = 0
    for st in ("SX", "MX"):
        net = CP.build_network(prog, st)
        CP.set_opaque_states(net)
        for el in net.links + net.origins + net.dests:
            decl = declared_of(prog, el.cls)
            if not decl["states"]:
                continue
            el.attrs["next_states"] = None
            stepfi = prog.lookup_method(el.cls, "step")
            it = net.w.interp()
            raised = None
            try:
                # the dynamics need the network and the model parameters: without them they raise
                it.call_function(CP.FuncV(stepfi, el, defcls=stepfi.cls), [], {})
            except Raised as e:
                raised = e
            n_fail += 1
            cname = el.cls.split(":")[1]
            if raised is None:
                rep.undecided("failed-step-leaves-unstepped", f"{st}: {cname}", where,
                              "step() without arguments did not raise: cannot provoke a failing step")
                continue
            ns = el.attrs.get("next_states")
            rep.check(ns is None, "failed-step-leaves-unstepped", f"{st}: {cname} `{el.ident}`.step() raising "
                      f"{raised.exc.split('.')[-1]}",
                      f"{prog.modules[stepfi.module].relpath}:{stepfi.node.lineno} {stepfi.qualname}",
                      f"after the failed step next_states is {ns!r}: has_next_states is true although the element was "
                      "never stepped, and to_function would compile it without its next states",
                      key=f"failstep|{cname}")
    rep.floor("failing-step scenarios", n_fail, 6)

    # ----------------------------------------------------- (c) who may write
    # states/actions/disturbances are assigned by __init__/init_vars, next_states by __init__
    # and ElementWithVars.step - or by a helper that is only ever called from those
    def callers_of(fn):
        out = []
        for g in prog.all_functions():
            if g is fn:
                continue
            for node in ast.walk(g.node):
                if isinstance(node, ast.Call):
                    f = node.func
                    nm_ = f.attr if isinstance(f, ast.Attribute) else f.id if isinstance(f, ast.Name) else None
                    if nm_ == fn.name:
                        out.append(g)
                        break
        return out

    def writer_ok(fn, base_ok, depth=0):
        if base_ok(fn):
            return True
        if depth >= 3 or not fn.name.startswith("_"):
            return False
        cs = callers_of(fn)
        return bool(cs) and all(writer_ok(c, base_ok, depth + 1) for c in cs)

    n_stores = 0
    for mi in prog.modules.values():
        for fn in [f for f in prog.all_functions() if f.module == mi.name]:
            for node in walk_no_nested(fn.node):
                if isinstance(node, ast.Attribute) and isinstance(node.ctx, (ast.Store, ast.Del)):
                    if node.attr in GROUPS:
                        n_stores += 1
                        ok = writer_ok(fn, lambda f: f.name in ("__init__", "init_vars"))
                        rep.check(ok, "typestate-writers", f"`{node.attr}` assigned in {fn.qualname}",
                                  f"{mi.relpath}:{node.lineno} {fn.qualname}",
                                  f"`{node.attr}` is assigned outside __init__/init_vars (and their private helpers): "
                                  "the readiness scan cannot know about it", key=f"writer|{node.attr}|{fn.qualname}")
                    if node.attr == "next_states":
                        n_stores += 1
                        ok = writer_ok(fn, lambda f: f.name == "__init__" or f.qualname == "ElementWithVars.step")
                        rep.check(ok, "typestate-writers", f"`next_states` assigned in {fn.qualname}",
                                  f"{mi.relpath}:{node.lineno} {fn.qualname}",
                                  "`next_states` is assigned outside __init__/ElementWithVars.step (and its private helpers)",
                                  key=f"writer|next_states|{fn.qualname}")
    rep.floor("typestate field stores", n_stores, 6)

    # ------------------- (c') network enumerations of typestate are never memoised
    # to_function reads the elements' typestate through these properties of Network; a
    # memoised one (or one that reads a memoised helper through `self`) would never see
    # elements initialised or stepped after its first read: init_vars/step invalidate nothing.
    netci = prog.find_class("sym_metanet.network", "Network")
    props = {n: f for n, f in netci.methods.items() if f.is_property()}
    graph_lookups = set()  # cached lookups of the *graph* (covered by C08), allowed
    try:
        from ..effects import NetModel

        nm_ = NetModel(prog)
        graph_lookups = {p for p in nm_.cached}
    except Exception:
        graph_lookups = set()

    def cached_dependencies(name, seen=()):
        """memoised properties/methods (other than graph lookups) reachable through self"""
        out = []
        f = props.get(name) or netci.methods.get(name)
        if f is None or name in seen:
            return out
        cached_here = f.is_cached_property() or any(
            (dotted_name(d.func if isinstance(d, ast.Call) else d) or "").split(".")[-1] in ("cache", "lru_cache")
            for d in f.node.decorator_list)
        if cached_here and name not in graph_lookups:
            out.append(name)
        for node in ast.walk(f.node):
            if isinstance(node, ast.Attribute) and isinstance(node.value, ast.Name) and node.value.id == "self":
                if node.attr in props or node.attr in netci.methods:
                    out += cached_dependencies(node.attr, seen + (name,))
        return out

    from ..front import dotted_name

    anchors = ["elements", "states", "next_states", "actions", "disturbances"]
    have = [a_ for a_ in anchors if a_ in props]
    for name in have:
        bad = cached_dependencies(name)
        f = props[name]
        if name in graph_lookups and name in anchors:
            bad = [name] + bad
        rep.check(not bad, "enumerations-uncached", f"Network.{name}",
                  f"{prog.module('sym_metanet.network').relpath}:{f.node.lineno} Network.{name}",
                  f"`Network.{name}` is (or reads) memoised {sorted(set(bad))}: it depends on the elements' "
                  "initialisation/stepping state, which init_vars/step never invalidate, so elements initialised "
                  "or stepped after the first read are invisible to to_function", key=f"cached-typestate|{name}")
    # the same, decided on an interpreted network with caching semantics (functools.cached_property
    # and functools.cache memoise as in CPython): every enumeration is read while no element is
    # initialised, then one link gets its variables and next states - the second read shows them
    from ..histories import HistWorld
    from ..interp import FuncV as _FuncV

    n_enum = 0
    hw = HistWorld(prog)
    hit = hw.interp()
    n1, n2 = hw.node("n1"), hw.node("n2")
    l1 = hw.link("l1", nseg=2)
    o1 = hw.origin("o1", "MeteredOnRamp")
    try:
        for meth, a, kw in (("add_link", [n1, l1, n2], {}), ("add_origin", [o1, n1], {})):
            mfi = prog.function("sym_metanet.network", f"Network.{meth}")
            hit.call(_FuncV(mfi, hw.net, defcls=mfi.cls), a, kw, None, None)
        before = {}
        for name in anchors:
            v = hit.getattr(hw.net, name, None, None)
            before[name] = list(hit.iterate(v, None, None)) if not isinstance(v, dict) else dict(v)
        l1.attrs["states"] = {"rho": TV(E.V("rho", "l1"), 1, False), "v": TV(E.V("v", "l1"), 1, False)}
        l1.attrs["next_states"] = {"rho": TV(E.V("rho+", "l1"), 1), "v": TV(E.V("v+", "l1"), 1)}
        o1.attrs["states"] = {"w": TV(E.S("o1.w"), 1, False)}
        o1.attrs["actions"] = {"r": TV(E.S("o1.r"), 1, False)}
        o1.attrs["disturbances"] = {"d": TV(E.S("o1.d"), 1, False)}
        expect = {"elements": [l1, o1], "states": {l1, o1}, "next_states": {l1}, "actions": {o1}, "disturbances": {o1}}
        for name in anchors:
            v = hit.getattr(hw.net, name, None, None)
            got = list(hit.iterate(v, None, None)) if not isinstance(v, dict) else list(v)
            n_enum += 1
            good = (got == expect[name]) if name == "elements" else (set(got) == expect[name])
            rep.check(good, "enumerations-fresh", f"Network.{name} read before and after the elements get their variables",
                      f"{prog.module('sym_metanet.network').relpath} Network.{name}",
                      f"after l1 and o1 were initialised (l1 stepped) `Network.{name}` lists {got!r}, expected "
                      f"{sorted(map(repr, expect[name]))}: elements initialised or stepped after the first read are "
                      "invisible to to_function", key=f"enum-fresh|{name}")
    except Raised as e:
        rep.refuted("enumerations-fresh", "Network enumerations", prog.module("sym_metanet.network").relpath,
                    f"reading the enumerations raises {e.exc}: {e.msg}", key="enum-fresh|raise")
    rep.floor("network enumerations read before/after initialisation", n_enum, 5)

    # ---------- the next states a compilation uses are those of the most recent step: stepping the
    # same objects again (other options before) leaves exactly the results of a fresh step
    from . import c12 as _c12
    from .common import require_no_errors as _rne, wire_results as _wr

    hcks = _wr(rep, "flags", impls=("casadi",))
    if _rne(rep, hcks):
        _c12.history_independence(rep, hcks)

    # ---------- (c'') initialising again creates new variables (so that next states computed
    # from the old ones mention symbols that are no longer arguments, which CasADi rejects)
    from .common import require_no_errors, wire_results

    cks = [ck for ck in wire_results(rep, "flags", impls=("casadi",)) if ck.cfg.history]
    if require_no_errors(rep, cks):
        for ck in cks:
            ev = [e for p in ck.paths for e in p.events if e[0] in ("var-not-fresh", "memoised")]
            rep.check(not ev, "reinitialisation-creates-new-variables", ck.cfg.label(),
                      ev[0][1] if ev else "init_vars", ev[0][2] if ev else "", key=f"refresh|{ev[0][0] if ev else ''}")
        rep.floor("re-initialisation scenarios", len(cks), 4)

    # ------------------------------------------------ (d) free symbols rejected
    net = CP.build_network(prog, "SX")
    CP.set_opaque_states(net)
    r = CP.to_function(prog, net, compact=0)
    if r[0] == "function":
        opts = r[5]
        free = isinstance(opts, dict) and bool(opts.get("allow_free", False))
        rep.check(not free, "no-free-symbols", "options passed to casadi.Function", where,
                  "allow_free is enabled: stale next states would compile into a function with free symbols",
                  key="allow_free")
    else:
        rep.refuted("compiles", "ready reference network", where, f"to_function raises {r[1].exc}", key="compile-raise")
    # the function is that of the most recent step: compile, step again, compile again (same engine)
    from .. import compile as _CP

    _CP.check_recompile(rep, rep.prog, "Engine.to_function")

