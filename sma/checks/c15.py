"""C15 - both engines compute the same value for every model primitive."""
from __future__ import annotations

import ast

from .. import expr as E
from .. import model as M
from .. import primcheck as PC
from .. import sigs
from ..core import Report
from ..interp import FuncV, Interp, Obj, Raised, TV
from ..spec import ptable as P
from ..wire import ENGINE_CLS

META = {
    "level": "proof",
    "technique": "static analysis: sibling comparison of the two engines' primitives by rational-function "
    "normal form (complete for field identities) in every optional-argument/type configuration, numpy rank "
    "discipline, definedness by sign/interval domain, signature agreement",
    "rule": "obligations = per primitive (14 + max + vcat) x configuration of optional arguments / type literal "
    "x (N>=2, N=1): both engines evaluate, their normal forms are equal position-wise, every partial "
    "operation is in domain on the admissible arguments (the model's two 0/0 excepted), the numpy body "
    "accepts length-1 arguments (rank discipline) and selects by a python condition only on scalar values; "
    "per primitive: equal parameter lists in both engines and the abstract interface",
    "explanation": "Each primitive body is interpreted from source under one guard configuration into a term; "
    "terms are normalised to rational functions over opaque atoms with exact coefficients and compared by "
    "cross-multiplication - a decision procedure, not sampling; library calls enter only through the alias table.",
    "claim": "Agreement of the two engines for all arguments at once, for every primitive and configuration, "
    "including definedness at boundary arguments and the argument shapes the NumPy engine itself creates.",
    "level_note": "trusted: alias table (numpy and casadi compute what their documentation says, element-wise); "
    "not decided: rounding differences between the libraries.",
}


def _engine_method_runs(prog, name):
    """Engine.max / Engine.vcat of both engines as pseudo primitives"""
    out = {}
    for impl in ("numpy", "casadi"):
        w = PC.PrimWorld(False)
        it = Interp(prog, w, lib_semantics=impl)
        fq = ENGINE_CLS[impl]
        m = prog.lookup_method(fq, name)
        eng = Obj(fq, "ENGINE", kind="engine")
        if name == "max":
            args = [TV(E.S("array1"), 0, False), TV(E.V("array2", "K"), 1, False)]
        else:
            args = [TV(E.S("x0"), 0, False), TV(E.V("x1", "K"), 1, False), TV(E.S("x2"), 1, False)]
        try:
            r = it.call_function(FuncV(m, eng, defcls=m.cls), args, {})
            out[impl] = (r.t if isinstance(r, TV) else None, None,
                         f"{prog.modules[m.module].relpath}:{m.node.lineno} {m.qualname}")
        except Raised as e:
            out[impl] = (None, str(e), f"{prog.modules[m.module].relpath}:{m.node.lineno} {m.qualname}")
    return out


def signatures_agree(rep: Report, only_group=None) -> None:
    prog = rep.prog
    # signatures: numpy == casadi == abstract interface (names, order, which have defaults)
    for prim, params in P.PRIMS.items():
        group, name = prim.split(".")
        if only_group is not None and group != only_group:
            continue
        sigsx = {}
        for impl, mod in (("core", "sym_metanet.engines.core"), ("numpy", PC.ENGINE_MOD["numpy"]),
                          ("casadi", PC.ENGINE_MOD["casadi"])):
            cls = PC.GROUP_CLS[group] + ("Base" if impl == "core" else "")
            fi = prog.function(mod, f"{cls}.{name}")
            sg = sigs.sig_of(fi.node)
            dvals = tuple(ast.dump(d) for d in list(fi.node.args.defaults) + [d for d in fi.node.args.kw_defaults if d is not None])
            sigsx[impl] = (sg.names(), (sg.defaults, dvals), fi)
        # names, order and which parameters have defaults agree with the abstract interface; the default
        # *values* agree between the two implementations (the interface's own are never executed)
        ok = (sigsx["numpy"][:2] == sigsx["casadi"][:2] and sigsx["core"][0] == params
              and sigsx["numpy"][0] == sigsx["core"][0] and sigsx["numpy"][1][0] == sigsx["core"][1][0])
        rep.check(ok, "signatures-agree", prim, f"{prog.modules[sigsx['numpy'][2].module].relpath}:{sigsx['numpy'][2].node.lineno}",
                  f"parameter lists differ: interface {sigsx['core'][:2]}, numpy {sigsx['numpy'][:2]}, casadi {sigsx['casadi'][:2]}",
                  key=f"sig|{prim}")


def run(rep: Report) -> None:
    prog = rep.prog
    rep.trusted += ["python ast", "alias table numpy<->casadi (sma/interp.py)", "admissible-domain facts"]
    runs0 = PC.all_runs(prog, rep.tier, scalar_rank=0)
    runs1 = PC.all_runs(prog, rep.tier, impls=("numpy",), scalar_rank=1)
    by = {(r.impl, r.prim, r.config, r.n1): r for r in runs0}
    # a primitive is a function of its arguments: nothing kept between calls (a memo with an
    # incomplete key makes the two engines disagree for the second caller), no comparison by
    # identity of values, no set of values
    STATE = {"global-state-store": "keeps state between calls", "value-identity": "compares values by identity",
             "value-set": "builds a set of model quantities", "memoised": "is memoised"}
    for r in runs0:
        ev = [e for e in r.events if e[0] in STATE]
        rep.check(not ev, "primitive-stateless", f"{r.impl} {r.prim} [{r.config}]{' N=1' if r.n1 else ''}", r.where,
                  (f"{STATE[ev[0][0]]}: {ev[0][2]}" if ev else ""), key=f"stateless|{r.impl}|{r.prim}")
    nz_eq = PC.prim_normalizer(False)
    n = 0
    for (impl, prim, config, n1), a in sorted(by.items()):
        if impl != "numpy":
            continue
        b = by.get(("casadi", prim, config, n1))
        inst = f"{prim} [{config}]{' N=1' if n1 else ''}"
        n += 1
        if b is None:
            rep.undecided("engines-equal", inst, a.where, "no casadi counterpart")
            continue
        if a.raised or b.raised or a.term is None or b.term is None:
            which = "numpy" if (a.raised or a.term is None) else "casadi"
            rr = a if which == "numpy" else b
            rep.refuted("engines-equal", inst, rr.where, f"the {which} implementation raises: {rr.raised}",
                        key=f"eq|{prim}|{config}|raise")
            continue
        d = PC.equal_terms(a.term, b.term, PC.prim_env(prim, n1), nz_eq)
        rep.check(not d, "engines-equal", inst, f"{a.where} vs {b.where}",
                  "" if not d else f"at position {d[0][0]}: numpy = {d[0][1][:350]}  |  casadi = {d[0][2][:350]}",
                  key=f"eq|{prim}|{config}")
        # python-level branching on a value inside one engine: every branch must agree
        for r, other in ((a, b), (b, a)):
            for t, ra, asm, tr in r.alt_terms:
                dd = [("-", "raises " + str(ra), "")] if (t is None) else PC.equal_terms(t, other.term, PC.prim_env(prim, n1), nz_eq)
                cond = "; ".join(E.fmt(x, 60) for x in asm)
                rep.check(not dd, "engines-equal", f"{inst} on the {r.impl} branch where [{cond}] is {tr}", r.where,
                          "" if not dd else f"{r.impl} branches in python on a value; on this branch it computes "
                          f"{dd[0][1][:300]} | the other engine: {dd[0][2][:300]}", key=f"eq-branch|{prim}|{config}|{r.impl}")
        # definedness on the admissible domain (both)
        for r in (a, b):
            nz = PC.prim_normalizer(True)
            env = E.Env(PC.prim_env(prim, n1))
            probs = []
            try:
                for pos in E.positions(E.shape(r.term, env), env):
                    probs += M.definedness(r.term, pos, env, nz, M.model_zero_over_zero)
            except E.ShapeError as ex:
                probs.append(("shape", str(ex), ""))
            rep.check(not probs, "defined-on-domain", f"{r.impl} {inst}", r.where,
                      "" if not probs else f"{probs[0][0]}: `{probs[0][1]}` not provably in domain (sign {probs[0][2]}): "
                      "the value can be NaN/inf for admissible arguments",
                      key=f"def|{r.impl}|{prim}|{probs[0][0] if probs else ''}")
        # a primitive that writes into its arguments returns different values when the same
        # argument objects are then handed to the other engine
        for r in (a, b):
            ev = [e for e in r.events if e[0] in ("mutates-shared", "mutates-caller-container")]
            rep.check(not ev, "arguments-untouched", f"{r.impl} {inst}", r.where,
                      "" if not ev else ev[0][2], key=f"argmut|{r.impl}|{prim}")
    rep.floor("primitive configurations compared", n, 60)
    # numpy with the length-1 arrays the engine itself creates
    for r in runs1:
        inst = f"numpy {r.prim} [{r.config}]{' N=1' if r.n1 else ''} with length-1 arguments"
        ev = [e for e in r.events if e[0] in ("rank-store", "rank-index", "rank-reduce")]
        if r.raised:
            rep.refuted("numpy-accepts-engine-shapes", inst, r.where, f"raises {r.raised}", key=f"rank|{r.prim}|raise")
        elif ev:
            rep.refuted("numpy-accepts-engine-shapes", inst, ev[0][1], ev[0][2], key=f"rank|{r.prim}|{ev[0][0]}")
        else:
            rep.holds("numpy-accepts-engine-shapes", inst, r.where)
    # max and vcat
    for name in ("max", "vcat"):
        res = _engine_method_runs(prog, name)
        (ta, ea, wa), (tb, eb, wb) = res["numpy"], res["casadi"]
        if ta is None or tb is None:
            rep.refuted("engines-equal", f"engine.{name}", wa if ta is None else wb,
                        f"raises {ea or eb}", key=f"eq|engine.{name}|raise")
            continue
        d = PC.equal_terms(ta, tb, False, nz_eq)
        spec = ("max", E.S("array1"), E.V("array2", "K")) if name == "max" else \
            E.vcat(E.S("x0"), E.V("x1", "K"), E.S("x2"))
        d2 = PC.equal_terms(ta, spec, False, nz_eq)
        rep.check(not d and not d2, "engines-equal", f"engine.{name}", f"{wa} vs {wb}",
                  "" if not (d or d2) else f"numpy = {(d or d2)[0][1][:200]} | other = {(d or d2)[0][2][:200]}",
                  key=f"eq|engine.{name}")
    signatures_agree(rep)
