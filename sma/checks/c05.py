"""C05 - extra flow outputs are the flows the state update actually used."""
from __future__ import annotations

from .. import balance as B
from .. import compile as CP
from .. import expr as E
from .. import model as M
from ..core import Report
from .common import require_fresh_lookups
from ..interp import Raised, TV

META = {
    "level": "proof",
    "technique": "static analysis: interpretation of Network.step followed by to_function(more_out=True) on a "
    "concrete network; the reported flow terms are tied to the update by polynomial identities",
    "rule": "obligations = per (symbol type) x (compact 0/1/2) x (origin kinds incl. the ideal origin): the extra "
    "outputs are link flows in the network's link order followed by origin flows in origin order; every "
    "reported link flow component == rho v lam of that input segment; every reported origin flow q_o "
    "satisfies w+ == w + T (d - q_o) with the w+ the step produced; the inflow the density update of the fed "
    "link used == entering reported last-segment flows + q_o"
    "; flows are reported in the order of the states (w[i], q_o[i] the same origin); one network stepped with the positive_init options (states = max(0, argument)); element names that do not sort like the attachment order",
    "explanation": "The flows are recomputed after the step by a separate code path; both the step and the "
    "recomputation are interpreted on the same network and the identities are decided by normal form, for "
    "all states at once.",
    "claim": "Reported flows coincide with the flows used by the queue update and by the density balance, on a "
    "network with a mainstream origin, a ramp at a merge node, a simplified ramp and (variant) an ideal origin.",
    "level_note": "the caller must pass the same T to step and to_function (caller's inputs).",
}


def run(rep: Report) -> None:
    prog = rep.prog
    rel = prog.module("sym_metanet.engines.casadi").relpath
    # (the helper that adds the flows, if the compilation still has one of that name)
    fi = prog.module("sym_metanet.engines.casadi").functions.get("_add_flows_to_outputs") or \
        prog.function("sym_metanet.engines.casadi", "Engine.to_function")
    where = f"{rel}:{fi.node.lineno} {fi.qualname}"
    rep.trusted += ["python ast", "models in sma/gworld.py and sma/compile.py", "alias table"]
    n = 0
    for st in ("SX", "MX"):
        for ideal, variant in ((False, "merge"), (True, "merge"), (False, "bifurcation"), (False, "minimal")):
            for compact in (0, 1, 2):
                for with_params in (False, True):
                    if rep.tier == "quick" and (st == "MX" or variant != "merge") and with_params:
                        continue
                    n += 1
                    label = (f"{st} compact={compact}{' ideal-origin' if ideal else ''}"
                             f"{' (second step and compilation, other T)' if (variant == 'merge' and compact == 2 and not ideal) else ''}"
                             f"{' (delta, phi not given)' if (variant == 'merge' and compact == 1 and not ideal) else ''}"
                             f"{' parameters' if with_params else ''}{'' if variant == 'merge' else ' network=' + variant}"
                             f"{' (clamped initial states)' if variant == 'bifurcation' else ''}")
                    net = CP.build_network(prog, st, vsl=False, variant=variant)
                    w = net.w
                    if ideal:
                        o = w.origin("O1", "Origin")
                        w.graph.node[net.nodes["N1"]][w.consts["ORIGINENTRY"]] = o
                        net.origins[0] = o
                    use_delta = not (variant == "merge" and compact == 1 and not ideal)
                    try:
                        # (on the bifurcation network the initial states are clamped: the states the
                        # update uses are max(0, symbol), not the function's arguments themselves)
                        pflags = ["positive_init_density", "positive_init_speed", "positive_init_queue"] \
                            if variant == "bifurcation" else None
                        CP.run_step(prog, net, flags=pflags, delta=use_delta, phi=use_delta)
                        if variant == "merge" and compact == 2 and not ideal:
                            # a second step and a second compilation on the same engine object:
                            # the flows must be those of the most recent step
                            w.other_T = "T2"
                            it2 = w.interp()
                            fi2 = prog.function("sym_metanet.network", "Network.step")
                            kw2 = dict(w.other_params(True, True))
                            kw2["T"] = TV(E.S("T2"), 0, False, "parameter T")
                            kw2["engine"] = w.EXPL
                            first = CP.to_function(prog, net, compact=compact, more_out=True,
                                                   other={"T": TV(E.S("T"), 0, False)})
                            it2.call_function(CP.FuncV(fi2, w.net, defcls=CP.NET), [], kw2)
                    except Raised as e:
                        rep.refuted("flows", label, "Network.step", f"stepping raises {e.exc}: {e.msg}", key="step-raise")
                        continue
                    Tname = "T2" if getattr(w, "other_T", None) == "T2" else "T"
                    other = {"T": TV(E.S(Tname), 0, False)}
                    params = None
                    if with_params:
                        params = {"rho_crit": TV(E.S("p.rho_crit"), 1, False), "a": TV(E.S("p.a"), 1, False)}
                    r = CP.to_function(prog, net, compact=compact, more_out=True, parameters=params, other=other)
                    if r[0] != "function":
                        rep.refuted("flows", label, where, f"to_function raises {r[1].exc}: {r[1].msg}",
                                    key=f"raise|{r[1].exc}")
                        continue
                    _, names_in, args_in, names_out, args_out, opts, it = r
                    nz = M.make_normalizer(None, with_domain=False)
                    try:
                        out_flat = [x for a in args_out for x in CP.flatten(w, a, nz)]
                    except Exception as ex:
                        rep.undecided("flows", label, where, f"cannot flatten outputs: {ex}")
                        continue
                    links = net.links
                    origins = net.origins
                    nx = sum(len(B.comps(w, l.attrs["states"][v], nz)) for l in links for v in l.attrs["states"]) + \
                        sum(len(o.attrs["states"] or {}) for o in origins)
                    nq = sum(len(B.comps(w, l.attrs["states"]["rho"], nz)) for l in links)
                    extra = out_flat[nx:]
                    ok_n = len(extra) == nq + len(origins)
                    rep.check(ok_n, "flow-outputs-complete", label, where,
                              f"{len(extra)} extra output components for {nq} link-flow and {len(origins)} origin-flow "
                              "components", key=f"count|c={compact}")
                    if not ok_n:
                        continue
                    # 1. link flows
                    k = 0
                    rep_q = {}
                    good, detail = True, ""
                    for l in links:
                        fc = B.flow_comps(w, l, nz)
                        rep_q[l] = extra[k:k + len(fc)]
                        for j, (a, b) in enumerate(zip(rep_q[l], fc)):
                            if not a.equals(b):
                                good, detail = False, (f"reported flow of {l.ident} segment {j} = {nz.show(a)[:200]} is not "
                                                       f"rho v lam = {nz.show(b)[:200]}")
                        k += len(fc)
                    rep.check(good, "link-flow-is-rho-v-lam", label, where, detail, key=f"linkflow|c={compact}")
                    # 2. origin flows vs queue update, 3. vs density balance of the fed link
                    T = nz.rf(E.S(Tname))
                    g = w.graph
                    K = w.consts
                    for i, o in enumerate(origins):
                        qo = extra[nq + i]
                        node = [n for n, d in g.node.items() if d.get(K["ORIGINENTRY"]) is o][0]
                        fed = [d[K["LINKENTRY"]] for _, _, d in g.out_edges(node)][0]
                        if o.attrs.get("states"):
                            wv = B.comps(w, o.attrs["states"]["w"], nz)[0]
                            wn = B.comps(w, o.attrs["next_states"]["w"], nz)[0]
                            d = B.comps(w, o.attrs["disturbances"]["d"], nz)[0]
                            res = wn - (wv + T * (d - qo))
                            rep.check(res.is_zero(), "origin-flow-is-queue-flow", f"{label}: {o.ident}", where,
                                      f"next queue - (queue + T (demand - reported flow)) = {nz.show(res)[:300]}",
                                      key=f"queueflow|{o.cls.split(':')[1]}|c={compact}")
                        rho = B.comps(w, fed.attrs["states"]["rho"], nz)
                        rn = B.comps(w, fed.attrs["next_states"]["rho"], nz)
                        lamL = nz.rf(fed.attrs["lam"].t) * nz.rf(fed.attrs["L"].t)
                        used = (rn[0] - rho[0]) * lamL / T + rep_q[fed][0]
                        ent = E.rconst(0)
                        for u, v, dd in g.in_edges(node):
                            ent = ent + rep_q[dd[K["LINKENTRY"]]][-1]
                        res = used - ent - qo
                        rep.check(res.is_zero(), "origin-flow-is-balance-flow", f"{label}: {o.ident} feeding {fed.ident}", where,
                                  f"inflow used by the density update of {fed.ident} - entering flows - reported origin flow "
                                  f"= {nz.show(res)[:300]}", key=f"balflow|{o.cls.split(':')[1]}|c={compact}")
                    # 4. the flows are reported in the order of the states they belong to: link flows
                    # like the link densities, origin flows like the queues (w[i] and q_o[i] are the
                    # same origin's)
                    try:
                        ids = [CP.ident_of(x, nz) for a in args_in for x in CP.flatten(w, a, nz)]
                    except Exception as ex:
                        rep.undecided("flows", label, where, f"cannot flatten inputs: {ex}")
                        continue
                    w_owners = [c[1] for c in ids if c is not None and c[0] == "w"]
                    rho_owners = []
                    for c in ids:
                        if c is not None and c[0] == "rho" and (not rho_owners or rho_owners[-1] != c[1]):
                            rho_owners.append(c[1])
                    exp_w = [o.ident for o in origins if o.attrs.get("states")]
                    exp_l = [l.ident for l in links]
                    rep.check(w_owners == exp_w and rho_owners == exp_l, "flow-order-matches-state-order", label, where,
                              f"the flows are reported for links {exp_l} and origins {[o.ident for o in origins]} in this "
                              f"order, but the function's states list the densities of {rho_owners} and the queues of "
                              f"{w_owners}", key=f"floworder|c={compact}")
    rep.floor("option combinations", n, 12)
    require_fresh_lookups(rep)

