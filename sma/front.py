"""FRONT - the resolved program.

Parses every ``*.py`` below ``<repo>/src/sym_metanet`` with ``ast`` and builds
module symbol tables, import alias maps, the class table with linearised MRO,
per-class method tables and class attributes.  Nothing is imported from the
repository: everything is derived from source text on every run.
"""
from __future__ import annotations

import ast
import hashlib
import os
from dataclasses import dataclass, field
from typing import Iterator, Optional

PKG = "sym_metanet"


class AnalysisError(Exception):
    """The analysis cannot decide (vanished anchor, unsupported construct,
    unresolved call in an analysed region).  Never a pass, never a violation."""


def repo_root() -> str:
    return os.environ.get("SMA_REPO", "/repo")


@dataclass
class FunctionInfo:
    module: str
    qualname: str  # "Class.method" or "func" or "func.<locals>.inner"
    node: ast.FunctionDef
    cls: Optional[str] = None  # owning class qualified name
    decorators: list = field(default_factory=list)

    @property
    def name(self) -> str:
        return self.node.name

    @property
    def fq(self) -> str:
        return f"{self.module}:{self.qualname}"

    def is_static(self) -> bool:
        return any(_dec_name(d) == "staticmethod" for d in self.node.decorator_list)

    def is_property(self) -> bool:
        return any(
            _dec_name(d) in ("property", "cached_property")
            for d in self.node.decorator_list
        )

    def is_cached_property(self) -> bool:
        return any(_dec_name(d) == "cached_property" for d in self.node.decorator_list)

    def is_abstract(self) -> bool:
        return any(_dec_name(d) == "abstractmethod" for d in self.node.decorator_list)


def _dec_name(d: ast.AST) -> str:
    if isinstance(d, ast.Call):
        d = d.func
    if isinstance(d, ast.Attribute):
        return d.attr
    if isinstance(d, ast.Name):
        return d.id
    return ""


@dataclass
class ClassInfo:
    module: str
    name: str
    node: ast.ClassDef
    base_exprs: list
    bases: list = field(default_factory=list)  # resolved fq class names (repo classes)
    ext_bases: list = field(default_factory=list)  # dotted names of external bases
    methods: dict = field(default_factory=dict)  # name -> FunctionInfo
    attrs: dict = field(default_factory=dict)  # name -> ast expr (class-level assigns)

    @property
    def fq(self) -> str:
        return f"{self.module}:{self.name}"


@dataclass
class ModuleInfo:
    name: str
    path: str
    relpath: str
    source: str
    tree: ast.Module
    imports: dict = field(default_factory=dict)  # local name -> dotted target
    functions: dict = field(default_factory=dict)  # name -> FunctionInfo
    classes: dict = field(default_factory=dict)  # name -> ClassInfo
    assigns: dict = field(default_factory=dict)  # name -> ast expr (module level)


class Program:
    def __init__(self, root: Optional[str] = None):
        self.root = root or repo_root()
        self.src = os.path.join(self.root, "src")
        self.modules: dict[str, ModuleInfo] = {}
        self.classes: dict[str, ClassInfo] = {}  # fq -> ClassInfo
        self._load()
        self._resolve_bases()

    # ------------------------------------------------------------------ load
    def _load(self) -> None:
        pkgdir = os.path.join(self.src, PKG)
        if not os.path.isdir(pkgdir):
            raise AnalysisError(f"package directory missing: {pkgdir}")
        for dirpath, dirnames, filenames in os.walk(pkgdir):
            dirnames[:] = sorted(d for d in dirnames if d != "__pycache__")
            for fn in sorted(filenames):
                if not fn.endswith(".py"):
                    continue
                path = os.path.join(dirpath, fn)
                rel = os.path.relpath(path, self.src)
                modname = rel[:-3].replace(os.sep, ".")
                if modname.endswith(".__init__"):
                    modname = modname[: -len(".__init__")]
                with open(path, encoding="utf-8") as fh:
                    source = fh.read()
                try:
                    tree = ast.parse(source, filename=path)
                except SyntaxError as e:  # pragma: no cover
                    raise AnalysisError(f"cannot parse {path}: {e}")
                mi = ModuleInfo(
                    modname, path, os.path.join("src", rel), source, tree
                )
                self._index_module(mi)
                self.modules[modname] = mi

    def _index_module(self, mi: ModuleInfo) -> None:
        def visit_body(body, in_type_checking=False):
            for st in body:
                if isinstance(st, ast.Import):
                    for a in st.names:
                        mi.imports[a.asname or a.name.split(".")[0]] = (
                            a.name if a.asname else a.name.split(".")[0]
                        )
                elif isinstance(st, ast.ImportFrom):
                    base = st.module or ""
                    for a in st.names:
                        mi.imports[a.asname or a.name] = f"{base}.{a.name}"
                elif isinstance(st, ast.FunctionDef):
                    mi.functions[st.name] = FunctionInfo(mi.name, st.name, st)
                elif isinstance(st, ast.ClassDef):
                    ci = ClassInfo(mi.name, st.name, st, list(st.bases))
                    for b in st.body:
                        if isinstance(b, ast.FunctionDef):
                            # property setters share the name: keep getter under name,
                            # setter under name + ".setter"
                            key = b.name
                            if any(
                                isinstance(d, ast.Attribute) and d.attr == "setter"
                                for d in b.decorator_list
                            ):
                                key = b.name + ".setter"
                            ci.methods[key] = FunctionInfo(
                                mi.name, f"{st.name}.{b.name}", b, cls=ci.fq
                            )
                        elif isinstance(b, ast.Assign):
                            for t in b.targets:
                                if isinstance(t, ast.Name):
                                    ci.attrs[t.id] = b.value
                        elif isinstance(b, ast.AnnAssign) and isinstance(
                            b.target, ast.Name
                        ):
                            if b.value is not None:
                                ci.attrs[b.target.id] = b.value
                    mi.classes[st.name] = ci
                    self.classes[ci.fq] = ci
                elif isinstance(st, ast.Assign):
                    for t in st.targets:
                        if isinstance(t, ast.Name):
                            mi.assigns[t.id] = st.value
                        elif isinstance(t, (ast.Tuple, ast.List)) and isinstance(st.value, (ast.Tuple, ast.List)) \
                                and len(t.elts) == len(st.value.elts):
                            for tt, vv in zip(t.elts, st.value.elts):  # A, B = "a", "b"
                                if isinstance(tt, ast.Name):
                                    mi.assigns[tt.id] = vv
                elif isinstance(st, ast.AnnAssign) and isinstance(st.target, ast.Name):
                    if st.value is not None:
                        mi.assigns[st.target.id] = st.value
                elif isinstance(st, ast.If):
                    # `if TYPE_CHECKING:` imports count for name resolution
                    visit_body(st.body)
                    visit_body(st.orelse)
                elif isinstance(st, ast.Try):
                    visit_body(st.body)

        visit_body(mi.tree.body)

    def _resolve_bases(self) -> None:
        for ci in self.classes.values():
            mi = self.modules[ci.module]
            for b in ci.base_exprs:
                if isinstance(b, ast.Subscript):  # Generic[...] / Base[VarType]
                    b = b.value
                dotted = dotted_name(b)
                if dotted is None:
                    continue
                tgt = self.resolve_name(mi, dotted)
                if tgt in self.classes:
                    ci.bases.append(tgt)
                else:
                    ci.ext_bases.append(self.expand_import(mi, dotted))

    # ------------------------------------------------------------- resolution
    def expand_import(self, mi: ModuleInfo, dotted: str) -> str:
        head, _, rest = dotted.partition(".")
        if head in mi.imports:
            full = mi.imports[head]
            return full + ("." + rest if rest else "")
        return dotted

    def resolve_name(self, mi: ModuleInfo, dotted: str) -> Optional[str]:
        """Resolve a (possibly dotted) name used in module ``mi`` to the fq name
        ``module:Object`` of a class or function of the repository, following
        imports and re-exports.  ``None`` if it is not a repository object."""
        head, _, rest = dotted.partition(".")
        if not rest:
            if head in mi.classes:
                return mi.classes[head].fq
            if head in mi.functions:
                return mi.functions[head].fq
        full = self.expand_import(mi, dotted)
        return self._resolve_dotted(full, set())

    def _resolve_dotted(self, full: str, seen: set) -> Optional[str]:
        if full in seen:
            return None
        seen.add(full)
        parts = full.split(".")
        for k in range(len(parts), 0, -1):
            modname = ".".join(parts[:k])
            if modname in self.modules:
                m = self.modules[modname]
                rest = parts[k:]
                if not rest:
                    return None
                obj = rest[0]
                if obj in m.classes and len(rest) == 1:
                    return m.classes[obj].fq
                if obj in m.classes and len(rest) == 2:
                    ci = m.classes[obj]
                    if rest[1] in ci.methods:
                        return ci.methods[rest[1]].fq
                if obj in m.functions and len(rest) == 1:
                    return m.functions[obj].fq
                if obj in m.imports:
                    return self._resolve_dotted(
                        ".".join([m.imports[obj]] + rest[1:]), seen
                    )
                return None
        return None

    # ---------------------------------------------------------------- classes
    def cls(self, fq_or_name: str) -> ClassInfo:
        if fq_or_name in self.classes:
            return self.classes[fq_or_name]
        cands = [c for c in self.classes.values() if c.name == fq_or_name]
        if len(cands) == 1:
            return cands[0]
        raise AnalysisError(f"class not found or ambiguous: {fq_or_name}")

    def find_class(self, module: str, name: str) -> ClassInfo:
        fq = f"{module}:{name}"
        if fq not in self.classes:
            raise AnalysisError(f"anchor vanished: class {fq}")
        return self.classes[fq]

    def mro(self, fq: str) -> list[str]:
        """C3 linearisation restricted to repository classes."""
        ci = self.classes[fq]
        seqs = [self.mro(b) for b in ci.bases] + [list(ci.bases)]
        res = [fq]
        seqs = [s for s in seqs if s]
        while seqs:
            for s in seqs:
                cand = s[0]
                if not any(cand in t[1:] for t in seqs):
                    break
            else:  # pragma: no cover
                raise AnalysisError(f"inconsistent MRO for {fq}")
            res.append(cand)
            seqs = [[x for x in s if x != cand] for s in seqs]
            seqs = [s for s in seqs if s]
        return res

    def lookup_method(self, fq: str, name: str, after: Optional[str] = None):
        """Method resolution through the MRO. ``after`` = class after which to
        start (``super()`` semantics)."""
        mro = self.mro(fq)
        if after is not None:
            mro = mro[mro.index(after) + 1 :]
        for c in mro:
            m = self.classes[c].methods.get(name)
            if m is not None:
                return m
        return None

    def lookup_class_attr(self, fq: str, name: str):
        for c in self.mro(fq):
            if name in self.classes[c].attrs:
                return self.classes[c].attrs[name], c
        return None, None

    def subclasses(self, fq: str, strict: bool = False) -> list[str]:
        out = []
        for c in self.classes:
            if fq in self.mro(c) and not (strict and c == fq):
                out.append(c)
        return sorted(out)

    def is_subclass(self, c: str, base: str) -> bool:
        return base in self.mro(c)

    # ------------------------------------------------------------------ misc
    def module(self, name: str) -> ModuleInfo:
        if name not in self.modules:
            raise AnalysisError(f"anchor vanished: module {name}")
        return self.modules[name]

    def function(self, module: str, qualname: str) -> FunctionInfo:
        mi = self.module(module)
        parts = qualname.split(".")
        if len(parts) == 1:
            if parts[0] in mi.functions:
                return mi.functions[parts[0]]
        elif len(parts) == 2 and parts[0] in mi.classes:
            m = mi.classes[parts[0]].methods.get(parts[1])
            if m is None:
                # inherited from a repository base class / mixin
                m = self.lookup_method(mi.classes[parts[0]].fq, parts[1])
            if m is not None:
                return m
        raise AnalysisError(f"anchor vanished: function {module}:{qualname}")

    def all_functions(self) -> Iterator[FunctionInfo]:
        for mi in self.modules.values():
            yield from mi.functions.values()
            for ci in mi.classes.values():
                yield from ci.methods.values()

    def digest(self) -> str:
        h = hashlib.sha256()
        for name in sorted(self.modules):
            h.update(name.encode())
            h.update(self.modules[name].source.encode())
        return h.hexdigest()[:16]

    def loc(self, module: str, node: ast.AST) -> str:
        mi = self.modules[module]
        return f"{mi.relpath}:{getattr(node, 'lineno', 0)}"


# ----------------------------------------------------------------- utilities
def dotted_name(node: ast.AST) -> Optional[str]:
    parts = []
    while isinstance(node, ast.Attribute):
        parts.append(node.attr)
        node = node.value
    if isinstance(node, ast.Name):
        parts.append(node.id)
        return ".".join(reversed(parts))
    return None


def text(node: ast.AST) -> str:
    """Normalised statement/expression text (independent of layout, comments,
    line numbers); used to key findings."""
    try:
        return ast.unparse(node)
    except Exception:  # pragma: no cover
        return ast.dump(node)


def short(node: ast.AST, n: int = 100) -> str:
    s = " ".join(text(node).split())
    return s if len(s) <= n else s[: n - 3] + "..."


def walk_no_nested(node: ast.AST) -> Iterator[ast.AST]:
    """ast.walk that does not descend into nested function/class/lambda bodies."""
    todo = list(ast.iter_child_nodes(node))
    while todo:
        n = todo.pop()
        yield n
        if isinstance(n, (ast.FunctionDef, ast.AsyncFunctionDef, ast.Lambda, ast.ClassDef)):
            continue
        todo.extend(ast.iter_child_nodes(n))


def ext_source(dotted_module: str) -> Optional[str]:
    """Path of the installed *source* of a third-party module (never imported)."""
    import sys

    parts = dotted_module.split(".")
    for p in sys.path:
        if not p or not os.path.isdir(p):
            continue
        base = os.path.join(p, *parts)
        for cand in (base + ".py", os.path.join(base, "__init__.py")):
            if os.path.isfile(cand):
                return cand
    return None


def ext_version(dist: str) -> Optional[str]:
    try:
        from importlib import metadata

        return metadata.version(dist)
    except Exception:
        return None
