"""Concrete small networks (concrete-graph world, concrete segment counts) on which
Network.step is interpreted and vehicle balances are decided as polynomial identities."""
from __future__ import annotations

from . import expr as E
from . import model as M
from .front import Program
from .gworld import GWorld
from .interp import FuncV, Raised, TV
from .wire import NET


def _mk(prog, impl):
    gw = GWorld(prog, impl)
    return gw, gw.graph, gw.consts


def networks(prog: Program, impl: str):
    """yield (name, world) for a set of valid topologies"""
    # A: chain with mainstream origin, interior ramp, congested destination
    gw, g, K = _mk(prog, impl)
    n = [gw.node(f"N{i}") for i in range(4)]
    l = [gw.link("L0", nseg=2), gw.link("L1", nseg=3), gw.link("L2", nseg=1)]
    g.add_node(n[0], **{K["ORIGINENTRY"]: gw.origin("O0", "MainstreamOrigin")})
    g.add_node(n[1], **{K["ORIGINENTRY"]: gw.origin("O1", "MeteredOnRamp", "out")})
    g.add_node(n[2])
    g.add_node(n[3], **{K["DESTINATIONENTRY"]: gw.dest("D0", "CongestedDestination")})
    for i in range(3):
        g.add_edge(n[i], n[i + 1], **{K["LINKENTRY"]: l[i]})
    yield "chain(mainstream, interior ramp, congested destination)", gw
    # B: merge of two ramp-fed links, ramp at the merge node
    gw, g, K = _mk(prog, impl)
    a, b, m, e = gw.node("A"), gw.node("B"), gw.node("M"), gw.node("E")
    g.add_node(a, **{K["ORIGINENTRY"]: gw.origin("OA", "MeteredOnRamp", "in")})
    g.add_node(b, **{K["ORIGINENTRY"]: gw.origin("OB", "SimplifiedMeteredOnRamp", "limited")})
    g.add_node(m, **{K["ORIGINENTRY"]: gw.origin("OM", "MeteredOnRamp", "out")})
    g.add_node(e, **{K["DESTINATIONENTRY"]: gw.dest("DE", "Destination")})
    g.add_edge(a, m, **{K["LINKENTRY"]: gw.link("LA", nseg=2)})
    g.add_edge(b, m, **{K["LINKENTRY"]: gw.link("LB", nseg=1)})
    g.add_edge(m, e, **{K["LINKENTRY"]: gw.link("LM", nseg=2)})
    yield "merge(two ramp-fed links, ramp at the merge node)", gw
    # C: bifurcation with one entering link
    gw, g, K = _mk(prog, impl)
    s, x, p, q = gw.node("S"), gw.node("X"), gw.node("P"), gw.node("Q")
    g.add_node(s, **{K["ORIGINENTRY"]: gw.origin("OS", "Origin")})
    g.add_node(x)
    g.add_node(p, **{K["DESTINATIONENTRY"]: gw.dest("DP", "Destination")})
    g.add_node(q, **{K["DESTINATIONENTRY"]: gw.dest("DQ", "CongestedDestination")})
    g.add_edge(s, x, **{K["LINKENTRY"]: gw.link("LS", nseg=2)})
    g.add_edge(x, p, **{K["LINKENTRY"]: gw.link("LP", nseg=2)})
    g.add_edge(x, q, **{K["LINKENTRY"]: gw.link("LQ", nseg=1)})
    yield "bifurcation(one entering, two leaving links, ideal origin)", gw
    # D: crossing: two in, two out
    gw, g, K = _mk(prog, impl)
    a, b, x, p, q = (gw.node(k) for k in "ABXPQ")
    g.add_node(a, **{K["ORIGINENTRY"]: gw.origin("OA", "MainstreamOrigin")})
    g.add_node(b, **{K["ORIGINENTRY"]: gw.origin("OB", "MeteredOnRamp", "out")})
    g.add_node(x)
    g.add_node(p, **{K["DESTINATIONENTRY"]: gw.dest("DP", "Destination")})
    g.add_node(q, **{K["DESTINATIONENTRY"]: gw.dest("DQ", "Destination")})
    g.add_edge(a, x, **{K["LINKENTRY"]: gw.link("LA", nseg=1)})
    g.add_edge(b, x, **{K["LINKENTRY"]: gw.link("LB", nseg=2)})
    g.add_edge(x, p, **{K["LINKENTRY"]: gw.link("LP", nseg=2)})
    g.add_edge(x, q, **{K["LINKENTRY"]: gw.link("LQ", nseg=2)})
    yield "crossing(two entering, two leaving links)", gw
    # E: ring of two links with a ramp, no destination
    gw, g, K = _mk(prog, impl)
    a, b = gw.node("A"), gw.node("B")
    g.add_node(a, **{K["ORIGINENTRY"]: gw.origin("OA", "MeteredOnRamp", "out")})
    g.add_node(b)
    g.add_edge(a, b, **{K["LINKENTRY"]: gw.link("LAB", nseg=2)})
    g.add_edge(b, a, **{K["LINKENTRY"]: gw.link("LBA", nseg=1)})
    yield "ring(two links, ramp)", gw
    # F: self-loop with a ramp
    gw, g, K = _mk(prog, impl)
    a = gw.node("A")
    g.add_node(a, **{K["ORIGINENTRY"]: gw.origin("OA", "SimplifiedMeteredOnRamp", "unlimited")})
    g.add_edge(a, a, **{K["LINKENTRY"]: gw.link("LAA", nseg=3)})
    yield "self-loop(ramp)", gw


def caller_variables(gw: GWorld) -> dict:
    """initial conditions for every element, given by the caller: the same symbols the engine
    would create (so that results are comparable with an engine-initialised run)"""
    ic = {}
    links, origins, dests = elements(gw)
    for _, _, l in links:
        d = {"v": TV(E.V("v", l.ident), 1, False, "caller array"), "rho": TV(E.V("rho", l.ident), 1, False, "caller array")}
        if l.cls.endswith(":LinkWithVsl"):
            d["v_ctrl"] = TV(E.V("v_ctrl", l.ident + ".vsl") if l.attrs["vsl"] else E.vcat(), 1, False, "caller array")
        ic[l] = d
    for _, o in origins:
        ic[o] = {k: TV(E.S(f"{o.ident}.{k}"), 1, False, "caller array") for k in ("q", "v_ctrl", "r", "d", "w")}
    for _, dd in dests:
        ic[dd] = {"d": TV(E.S(f"{dd.ident}.d"), 1, False, "caller array")}
    return ic


def step(prog: Program, gw: GWorld, delta=True, phi=True, engine_explicit=True, flags=(), init_conditions=None):
    it = gw.interp()
    fi = prog.function("sym_metanet.network", "Network.step")
    kw = dict(gw.other_params(delta, phi))
    kw["engine"] = gw.EXPL if engine_explicit else None
    if init_conditions is not None:
        kw["init_conditions"] = init_conditions
    for f in flags:
        kw[f] = True
    it.call_function(FuncV(fi, gw.net, defcls=NET), [], kw)
    return it


def elements(gw: GWorld):
    K = gw.consts
    g = gw.graph
    links = [(u, v, d[K["LINKENTRY"]]) for u, v, d in g.out_edges()]
    origins = [(n, d[K["ORIGINENTRY"]]) for n, d in g.node.items() if K["ORIGINENTRY"] in d]
    dests = [(n, d[K["DESTINATIONENTRY"]]) for n, d in g.node.items() if K["DESTINATIONENTRY"] in d]
    return links, origins, dests


def comps(gw: GWorld, tv, nz):
    """scalar components (RF) of a state / next state"""
    env = gw.env
    t = tv.t if isinstance(tv, TV) else tv
    sh = E.shape(t, env)
    return [nz.rf(E.at(t, pos, env)) for pos in E.positions(sh, env)]


def flow_comps(gw, link, nz):
    rho = comps(gw, link.attrs["states"]["rho"], nz)
    v = comps(gw, link.attrs["states"]["v"], nz)
    lam = nz.rf(link.attrs["lam"].t)
    return [r * s * lam for r, s in zip(rho, v)]


def incremental_vs_direct(prog: Program):
    """The same merge network built (i) in one go and (ii) incrementally - mainline first, validated
    and stepped, then a second branch attached to the interior node - with CPython's caching of
    `cached_property` and the real invalidating decorator. After the final step every element's
    next state must be the same term. Returns a list of discrepancies (text)."""
    from .histories import HistWorld

    def build(incremental: bool):
        hw = HistWorld(prog)
        it = hw.interp()
        n1, n2, n3, n4, n5 = (hw.node(k) for k in ("n1", "n2", "n3", "n4", "n5"))
        l1, l2, l3, l4 = hw.link("l1", nseg=2), hw.link("l2", nseg=2), hw.link("l3", nseg=1), hw.link("l4", nseg=2)
        o1, o3 = hw.origin("o1", "MainstreamOrigin"), hw.origin("o3", "MeteredOnRamp")
        d1, d2 = hw.dest("d1", "Destination"), hw.dest("d2", "CongestedDestination")

        def call(meth, *a, **kw):
            fi = prog.function("sym_metanet.network", f"Network.{meth}")
            return it.call(FuncV(fi, hw.net, defcls=NET), list(a), dict(kw), None, None)

        call("add_path", (n1, l1, n2, l2, n3), origin=o1, destination=d1)
        if incremental:
            call("is_valid")
            step(prog, hw)
        call("add_path", (n4, l3, n2), origin=o3)       # a second link entering the interior node
        call("add_path", (n2, l4, n5), destination=d2)  # and a second link leaving it
        if incremental:
            call("is_valid")
        step(prog, hw)
        outs = {}
        for ident, o in hw.roles.items():
            ns = o.attrs.get("next_states")
            if isinstance(ns, dict):
                outs[ident] = {k: v.t for k, v in ns.items()}
        return outs, hw.env

    bad = []
    try:
        ref, env = build(False)
        got, _ = build(True)
    except Raised as e:
        return [f"building / stepping raises {e.exc}: {e.msg}"]
    nz = M.make_normalizer(None, with_domain=False)
    for ident, vs in ref.items():
        for var, t in vs.items():
            g = got.get(ident, {}).get(var)
            if g is None:
                bad.append(f"no next {var} of {ident} on the incrementally built network")
                continue
            try:
                mm = M.compare(g, t, env, nz)
            except E.ShapeError as ex:
                mm = [("shape", str(ex), "")]
            if mm:
                bad.append(f"next {var} of {ident} at {mm[0][0]}: incremental = {mm[0][1][:200]} | built in one go = {mm[0][2][:200]}")
    return bad
