"""Comparison of interpreted terms with the oracle tables: admissible-domain facts,
substitution, position-wise equality, supports (stencils)."""
from __future__ import annotations

from fractions import Fraction
from typing import Optional

from . import expr as E
from .expr import Facts, Normalizer
from .front import AnalysisError

POSITIVE = ("lam", "L", "rho_max", "rho_crit", "v_free", "a", "turnrate")
NONNEG_PARAM = ("C",)
NONNEG_VARS = ("rho", "v", "w", "d", "q", "r", "v_ctrl")


def _name_of(key):
    """symbol key -> (role, name)"""
    if key[0] == "s":
        nm = key[1]
        if "." in nm:
            role, _, n = nm.rpartition(".")
            return role, n
        return None, nm
    if key[0] == "sa":
        return key[2], key[1]
    return None, None


def domain_facts(extra_nonneg=()) -> Facts:
    """The admissible-domain table of DESIGN.md section 1.4."""
    f = Facts()

    def positive(key):
        role, n = _name_of(key)
        if role is None:
            return n in ("T", "tau", "kappa")
        return n in POSITIVE

    def nonneg(key):
        role, n = _name_of(key)
        if role is None:
            return n in ("eta", "delta", "phi") or n in extra_nonneg
        return n in NONNEG_PARAM or n in NONNEG_VARS

    f.add_sym_rule(positive, ">0")
    f.add_sym_rule(nonneg, ">=0")
    return f


def make_normalizer(cfg=None, with_domain=True) -> Normalizer:
    facts = domain_facts() if with_domain else Facts()
    nz = Normalizer(facts)
    if with_domain:
        # 1 + alpha > 0 ; r <= 1 ; rho_crit < rho_max ; rho_first <= rho_max
        facts.add_fact(E.add(E.ONE, E.S("SELF.alpha")), ">0")
        facts.add_fact(E.sub(E.ONE, E.S("ORG.r")), ">=0")
        facts.add_fact(E.sub(E.S("SELF.rho_max"), E.S("SELF.rho_crit")), ">0")
        for pos in (("first", 0), ("only",)):
            facts.add_fact(E.sub(E.S("SELF.rho_max"), ("sa", "rho", "SELF", pos)), ">=0")
    return nz


# -------------------------------------------------------------- substitution
def subst(t, mapping: dict):
    if not E.is_term(t):
        return t
    if t in mapping:
        return mapping[t]
    k = t[0]
    if k in ("c", "inf", "s", "v", "w", "sa"):
        return t
    if k == "vcat":
        return ("vcat", tuple(subst(x, mapping) for x in t[1]))
    out = [k]
    for x in t[1:]:
        out.append(subst(x, mapping) if E.is_term(x) else x)
    return tuple(out)


def symbols(t, acc=None) -> set:
    acc = set() if acc is None else acc
    if not E.is_term(t):
        return acc
    k = t[0]
    if k in ("s", "v", "w", "sa"):
        acc.add(t)
        return acc
    if k == "vcat":
        for x in t[1]:
            symbols(x, acc)
        return acc
    for x in t[1:]:
        if E.is_term(x):
            symbols(x, acc)
    return acc


def assumption_substitution(assumptions, nz: Normalizer):
    """Path assumptions `X == 0` (taken true) with X = a - b for two symbols become
    the substitution b := a; everything else is returned as unusable."""
    mapping, unusable = {}, []
    for term, choice, text in assumptions:
        used = False
        if term[0] == "cmp" and term[1] in ("eq", "ne"):
            truth = choice if term[1] == "eq" else (not choice)
            x = E.sub(term[2], term[3])
            if truth:
                syms = [s for s in symbols(x) if s[0] == "s"]
                if len(syms) == 2:
                    a, b = sorted(syms)
                    # check X == +-(a - b)
                    r = nz.rf(x)
                    if r.equals(nz.rf(E.sub(a, b))) or r.equals(nz.rf(E.sub(b, a))):
                        # keep SELF.* symbols, replace the other
                        keep, drop = (a, b) if a[1].startswith("SELF.") else (b, a)
                        mapping[drop] = keep
                        used = True
            else:
                used = True  # generic position: nothing to substitute
        if not used:
            unusable.append((term, choice, text))
    return mapping, unusable


# ------------------------------------------------------- position-wise compare
def _ite_conditions(t, acc):
    if not E.is_term(t):
        return acc
    if t[0] == "ite" and E.is_term(t[1]) and t[1][0] == "cmp":
        if t[1] not in acc:
            acc.append(t[1])
    for x in t[1:]:
        if E.is_term(x):
            _ite_conditions(x, acc)
        elif isinstance(x, tuple):
            for y in x:
                _ite_conditions(y, acc)
    return acc


def scalar_equal(a, b, nz: Normalizer, max_conds: int = 4):
    """Equality of two scalar terms; conditionals on comparisons are decided by case
    analysis (both terms must agree under every truth assignment of their conditions).
    Returns (equal?, normalizer used for the first differing case, rf_a, rf_b)."""
    conds = [c for c in _ite_conditions(b, _ite_conditions(a, [])) if nz.truth_of(c) is None]
    if not conds:
        ra, rb = nz.rf(a), nz.rf(b)
        return ra.equals(rb), nz, ra, rb
    if len(conds) > max_conds:
        raise AnalysisError(f"more than {max_conds} independent conditions in one term")
    import itertools

    last = None
    for assign in itertools.product((True, False), repeat=len(conds)):
        n2 = Normalizer(nz.facts.clone())
        for op, d, tv in nz.assumed:
            pass
        for term, tv in list(getattr(nz, "_assumed_terms", [])):
            n2.assume(term, tv)
        for c, tv in zip(conds, assign):
            if n2.truth_of(c) is None:
                n2.assume(c, tv)
        ra, rb = n2.rf(a), n2.rf(b)
        last = (n2, ra, rb)
        if not ra.equals(rb):
            return False, n2, ra, rb
    return True, last[0], last[1], last[2]


def compare(code, spec, env: E.Env, nz: Normalizer, mapping: Optional[dict] = None):
    """Returns a list of (position, code_text, spec_text) mismatches; raises
    E.ShapeError if shapes differ."""
    mapping = mapping or {}
    code = subst(code, mapping)
    spec = subst(spec, mapping)
    sc, ss = E.shape(code, env), E.shape(spec, env)
    if sc != ss:
        return [("shape", f"shape {sc}", f"shape {ss}")]
    out = []
    for pos in E.positions(sc, env):
        eq, n2, a, b = scalar_equal(E.at(code, pos, env), E.at(spec, pos, env), nz)
        if not eq:
            out.append((E._fpos(pos), n2.show(a), n2.show(b)))
    return out


def support(t, pos, env: E.Env, nz: Normalizer) -> set:
    """symbols (with positions) the scalar `t @ pos` depends on after normalisation
    (cancelling occurrences are removed by the normal form)."""
    r = nz.rf(E.at(t, pos, env))
    out = set()

    def walk_rf(r):
        for a in r.atoms():
            walk_atom(a)

    def walk_atom(a):
        d = nz.desc(a)
        if d[0] == "sym":
            out.add(d[1])
        elif d[0] == "inf":
            pass
        else:
            for x in d[1:]:
                if isinstance(x, E.RF):
                    walk_rf(x)
                elif isinstance(x, tuple):
                    for y in x:
                        if isinstance(y, E.RF):
                            walk_rf(y)
            if d[0] == "sumfam":
                pass

    walk_rf(r)
    return out


# --------------------------------------------------------------- definedness
def definedness(t, pos, env: E.Env, nz: Normalizer, excluded=None) -> list:
    """Partial operations of the scalar `t @ pos` whose argument is not provably in
    the operation's domain under the admissible-domain facts.  `excluded(kind, den)`
    may exempt a site (the model's own 0/0)."""
    sc = E.at(t, pos, env)
    problems = []
    seen = set()

    def walk(x):
        if not E.is_term(x) or x in seen:
            return
        seen.add(x)
        k = x[0]
        if k == "div":
            den = nz.rf(x[2])
            s = nz.facts.sign(den)
            if s not in (">0", "<0"):
                if not (excluded and excluded(x[2], den)):
                    problems.append(("div", E.fmt(x[2], 160), s))
        elif k == "mul":
            # inf * x is undefined at x == 0
            for a, b in ((x[1], x[2]), (x[2], x[1])):
                if a == E.INF or (a[0] == "neg" and a[1] == E.INF):
                    sb = nz.facts.sign(nz.rf(b))
                    if sb not in (">0", "<0"):
                        problems.append(("inf-times", E.fmt(b, 160), sb))
        elif k == "fn" and x[1] == "log":
            arg = nz.rf(x[2])
            s = nz.facts.sign(arg)
            lo, hi = nz.facts.interval(arg)
            if not (s == ">0" or (lo is not None and lo > 0)):
                problems.append(("log", E.fmt(x[2], 160), s))
        elif k == "pow":
            e = nz.rf(x[2]).const()
            b = nz.rf(x[1])
            sb = nz.facts.sign(b)
            if e is not None and e.denominator == 1:
                if e < 0 and sb not in (">0", "<0"):
                    problems.append(("pow-neg", E.fmt(x[1], 160), sb))
            else:
                if sb not in (">0", ">=0", "0"):
                    problems.append(("pow-frac", E.fmt(x[1], 160), sb))
        for y in x[1:]:
            if E.is_term(y):
                walk(y)
            elif isinstance(y, tuple):
                for z in y:
                    walk(z)

    walk(sc)
    return problems


def model_zero_over_zero(den_term, den_rf) -> bool:
    """The two 0/0 sites the model itself has (and the properties exclude): the
    flow-weighted speed at zero total inflow (sum over In(U) of last-segment flows)
    and the downstream density at zero total first-segment density (sum over
    Out(D) of first-segment densities)."""
    if den_term[0] != "sumfam":
        return False
    dom = den_term[1]
    body = den_term[2]
    syms = symbols(body)
    if dom == "In(U)":
        names = {(s[1], s[3]) for s in syms if s[0] == "sa"}
        return names <= {("rho", ("last", 0)), ("v", ("last", 0))} and all(
            s[0] == "sa" or s[1].endswith(".lam") for s in syms)
    if dom == "Out(D)":
        return all(s[0] == "sa" and s[1] == "rho" and s[3] == ("first", 0) for s in syms)
    if dom == "J":  # primitive-level families
        return True
    return False


# ------------------------------------------------------------------ bounds
NONNEG = ("0", ">0", ">=0")


def upper_bounds(t, nz: Normalizer) -> list:
    """terms u (as RF) with  t <= u  under the admissible-domain facts (BND, DESIGN 1.4)"""
    F = nz.facts
    out = [nz.rf(t)]
    k = t[0]

    def add(r):
        if not any(r.equals(x) for x in out):
            out.append(r)

    if k == "min":
        for x in (t[1], t[2]):
            for u in upper_bounds(x, nz):
                add(u)
    elif k in ("max", "ite"):
        a, b = (t[1], t[2]) if k == "max" else (t[2], t[3])
        ua, ub = upper_bounds(a, nz), upper_bounds(b, nz)
        for u in ua:
            if any(u.equals(v) for v in ub):
                add(u)
    elif k == "mul":
        for c, x in ((t[1], t[2]), (t[2], t[1])):
            rc = nz.rf(c)
            sc = F.sign(rc)
            if sc in NONNEG:
                for u in upper_bounds(x, nz):
                    add(rc * u)  # c >= 0 and x <= u  =>  c x <= c u
                if F.sign(E.rconst(1) - rc) in NONNEG and F.sign(nz.rf(x)) in NONNEG:
                    for u in upper_bounds(x, nz):
                        add(u)  # 0 <= c <= 1, x >= 0  =>  c x <= x <= u
    elif k in ("s", "sa"):
        one = E.rconst(1)
        if F.sign(one - out[0]) in NONNEG:
            add(one)
    return out


def leq(a, b, nz: Normalizer) -> bool:
    return nz.facts.sign(b - a) in NONNEG


def bounded_by(t, target, nz: Normalizer) -> bool:
    tr = nz.rf(target)
    return any(leq(u, tr, nz) for u in upper_bounds(t, nz))


def apply_assumptions(nz: Normalizer, assumptions, env: E.Env, mapping=None) -> None:
    """path assumptions on symbolic comparisons select the matching branch of ite terms"""
    for term, choice, _ in assumptions:
        if E.is_term(term) and term[0] == "cmp":
            try:
                t = subst(term, mapping or {})
                nz.assume(E.at(t, None, env), choice)
            except (AnalysisError, E.ShapeError):
                pass
