#!/venv/bin/python
"""Apply a patch to a scratch copy of /repo/src and run checks against it.

usage: try_patch.py <patch.diff> [--tier quick] PID [PID...]   (PID 'all' = every check module)
Prints one line per check: PID rc first-violation-line.  The scratch copy lives in a
tempfile.mkdtemp() and is removed afterwards.
"""
import glob, os, shutil, subprocess, sys, tempfile

VERIF = os.path.dirname(os.path.dirname(os.path.abspath(__file__)))


def main():
    args = sys.argv[1:]
    tier = "quick"
    if "--tier" in args:
        i = args.index("--tier")
        tier = args[i + 1]
        del args[i : i + 2]
    reverse = False
    if "-R" in args:
        reverse = True
        args.remove("-R")
    patch, pids = args[0], args[1:]
    if pids == ["all"] or not pids:
        pids = sorted(
            os.path.basename(p)[:-3].upper()
            for p in glob.glob(os.path.join(VERIF, "sma/checks/c[0-9]*.py"))
        )
    tmp = tempfile.mkdtemp(prefix="sma_scratch_")
    try:
        shutil.copytree("/repo/src", os.path.join(tmp, "src"))
        if patch != "-":
            cmd = ["patch", "-p1", "-s", "-d", tmp, "-i", os.path.abspath(patch)]
            if reverse:
                cmd.insert(1, "-R")
            r = subprocess.run(cmd, capture_output=True, text=True)
            if r.returncode != 0:
                print("PATCH-FAILED", r.stdout, r.stderr)
                return 3
        env = dict(os.environ, SMA_REPO=tmp, SMA_EVIDENCE_DIR=os.path.join(tmp, "evidence"))
        worst = 0
        for pid in pids:
            r = subprocess.run(
                ["/venv/bin/python", os.path.join(VERIF, "sma/run.py"), pid, "--tier", tier],
                capture_output=True, text=True, env=env, cwd=VERIF,
            )
            lines = [l for l in r.stdout.splitlines() if l.startswith(("  REFUTED", "ANALYSIS-ERROR", "KNOWN"))]
            print(f"{pid} rc={r.returncode} " + (" || ".join(l.strip()[:300] for l in lines[:3])))
            if r.returncode not in (0, 1, 2):
                print(r.stdout[-2000:], r.stderr[-2000:])
            worst = max(worst, r.returncode)
        return worst
    finally:
        shutil.rmtree(tmp, ignore_errors=True)


if __name__ == "__main__":
    sys.exit(main())
