#!/bin/bash
# usage: own_sweep.sh [jobs] -- run, for every seeded change, the check of the property it was written for
# (D* seeds: the checks named in their meta.json, else all) on a scratch copy; prints the ones not caught.
cd "$(dirname "$0")/.."
J=${1:-3}
ls seeded | grep -v MATRIX | grep "^C" | xargs -P $J -I{} sh -c 'p=$(echo {} | cut -c1-3); r=$(tools/try_patch.py seeded/{}/patch.diff $p 2>&1 | tail -1 | cut -c1-120); echo "{} :: $r"' 2>&1 | grep -v WARNING | sort > /tmp/own_sweep.txt
echo "caught: $(grep -c 'rc=1' /tmp/own_sweep.txt) of $(wc -l < /tmp/own_sweep.txt)"
grep -v 'rc=1' /tmp/own_sweep.txt
