#!/venv/bin/python
"""Rewrite seeded/MATRIX.md and refactors/MATRIX.md from the stored MATRIX.json files."""
import json, os

VERIF = os.path.dirname(os.path.dirname(os.path.abspath(__file__)))
for sub, title, col in (("seeded", "# Seeded changes x checks (quick tier): which checks report a VIOLATION", "change"),
                        ("refactors", "# Behaviour-preserving refactorings x checks (quick tier): every check must stay silent", "refactoring")):
    mpath = os.path.join(VERIF, sub, "MATRIX.json")
    try:
        stored = json.load(open(mpath))
    except Exception:
        continue
    items = sorted(d for d in os.listdir(os.path.join(VERIF, sub)) if os.path.isdir(os.path.join(VERIF, sub, d)))
    with open(os.path.join(VERIF, sub, "MATRIX.md"), "w") as fh:
        fh.write(title + "\n\n(last result per " + col + "; rows marked *own* were run against the check of their own "
                 "property only; no row = not run since it was added)\n\n"
                 f"| {col} | checks that fire (exit 1) | analysis errors (exit 2) |\n|---|---|---|\n")
        for it in items:
            if it in stored:
                m = stored[it]
                own = " *own*" if m.get("own_check_only") else ""
                fh.write(f"| {it}{own} | {', '.join(m['fired']) or '-'} | {', '.join(m['errors']) or '-'} |\n")
    print(sub, len([i for i in items if i in stored]), "of", len(items), "rows")
