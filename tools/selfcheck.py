#!/venv/bin/python
"""setup-time sanity: the framework imports, the repo parses, spec tables load."""
import os, sys
VERIF = os.path.dirname(os.path.dirname(os.path.abspath(__file__)))
sys.path.insert(0, VERIF)
from sma.front import Program
p = Program()
assert "sym_metanet.network" in p.modules, "repo not parsed"
print(f"selfcheck ok: {len(p.modules)} modules, {len(p.classes)} classes, digest {p.digest()}")
