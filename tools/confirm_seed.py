#!/venv/bin/python
"""Confirm a candidate seeded change in a scratch worktree and, if confirmed, store it
under /verif/seeded/<id>/ (patch.diff, demo.py, meta.json).

usage: confirm_seed.py <worktree> <outdir> <k> <seed-id>
Checks: worktree clean; patch applies; repository test-suite unchanged (54 passed,
1 collection error); demo exits non-zero with the change and zero without it.
"""
import json, os, re, shutil, subprocess, sys

wt, out, k, sid = sys.argv[1:5]
PY = "/venv/bin/python"
env = dict(os.environ, PYTHONPATH=os.path.join(wt, "src"))

def sh(cmd, **kw):
    return subprocess.run(cmd, shell=True, capture_output=True, text=True, env=env, **kw)

def demo():
    r = sh(f"cd {wt} && timeout 600 {PY} {out}/demo_{k}.py")
    return r.returncode, (r.stdout + r.stderr)[-400:]

res = {"seed": sid}
sh(f"git -C {wt} checkout -- .")
assert sh(f"git -C {wt} status --short").stdout.strip() == "", "worktree not clean"
rc0, o0 = demo()
res["demo_clean_rc"] = rc0
a = sh(f"git -C {wt} apply {out}/patch_{k}.diff")
res["apply_rc"] = a.returncode
if a.returncode == 0:
    t = sh(f"cd {wt} && {PY} -m pytest -q -p no:cacheprovider --continue-on-collection-errors tests 2>&1 | tail -3")
    m = re.search(r"(\d+) passed", t.stdout)
    res["tests"] = t.stdout.strip().splitlines()[-1] if t.stdout.strip() else ""
    res["tests_passed"] = int(m.group(1)) if m else -1
    res["tests_failed"] = "failed" in res["tests"]
    rc1, o1 = demo()
    res["demo_changed_rc"] = rc1
    res["demo_changed_tail"] = o1[-200:]
sh(f"git -C {wt} checkout -- .")
ok = (res.get("apply_rc") == 0 and res.get("tests_passed") == 54 and not res.get("tests_failed")
      and res.get("demo_clean_rc") == 0 and res.get("demo_changed_rc", 0) != 0)
res["confirmed"] = ok
if ok:
    d = f"/verif/seeded/{sid}"
    os.makedirs(d, exist_ok=True)
    shutil.copy(f"{out}/patch_{k}.diff", f"{d}/patch.diff")
    shutil.copy(f"{out}/demo_{k}.py", f"{d}/demo.py")
    try:
        meta = json.load(open(f"{out}/meta_{k}.json"))
    except Exception as e:
        meta = {"note": f"agent meta unreadable: {e}"}
    meta["confirmed_by_main_session"] = {
        "what_i_ran": f"git apply patch in scratch worktree; {PY} -m pytest tests (PYTHONPATH=worktree/src); demo with and without the change",
        "tests_with_change": res["tests"],
        "demo_rc_clean": rc0,
        "demo_rc_with_change": res["demo_changed_rc"],
    }
    json.dump(meta, open(f"{d}/meta.json", "w"), indent=1)
print(json.dumps(res))
