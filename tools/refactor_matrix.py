#!/venv/bin/python
"""Run every registered check against every behaviour-preserving refactoring (expected: all silent) (scratch copies, parallel).
usage: seed_matrix.py [--tier quick] [seed-prefix ...]
Prints, per seed, the checks that report a VIOLATION (rc=1) / ANALYSIS-ERROR (rc=2).
Writes /verif/seeded/MATRIX.json.
"""
import glob, json, os, shutil, subprocess, sys, tempfile
from concurrent.futures import ThreadPoolExecutor

VERIF = os.path.dirname(os.path.dirname(os.path.abspath(__file__)))
args = sys.argv[1:]
tier = "quick"
if "--tier" in args:
    i = args.index("--tier"); tier = args[i + 1]; del args[i:i + 2]
seeds = sorted(d for d in os.listdir(os.path.join(VERIF, "refactors")) if os.path.isdir(os.path.join(VERIF, "refactors", d)))
if args:
    seeds = [s for s in seeds if any(s.startswith(a) for a in args)]
pids = sorted(os.path.basename(p)[:-3].upper() for p in glob.glob(os.path.join(VERIF, "sma/checks/c[0-9]*.py")))
# the analysis is run from a snapshot, so that it can be edited while a matrix is running
SNAP = tempfile.mkdtemp(prefix="sma_snap_")
shutil.copytree(os.path.join(VERIF, "sma"), os.path.join(SNAP, "sma"), ignore=shutil.ignore_patterns("__pycache__"))
shutil.copy(os.path.join(VERIF, "known_findings.jsonl"), SNAP)
import atexit
atexit.register(shutil.rmtree, SNAP, True)


def one(seed):
    tmp = tempfile.mkdtemp(prefix="sma_seed_")
    out = {}
    try:
        shutil.copytree("/repo/src", os.path.join(tmp, "src"))
        r = subprocess.run(["patch", "-p1", "-s", "-d", tmp, "-i", os.path.join(VERIF, "refactors", seed, "patch.diff")],
                           capture_output=True, text=True)
        if r.returncode != 0:
            return seed, {"PATCH": (3, r.stdout + r.stderr)}
        env = dict(os.environ, SMA_REPO=tmp, SMA_EVIDENCE_DIR=os.path.join(tmp, "ev"))
        for pid in pids:
            r = subprocess.run(["/venv/bin/python", os.path.join(SNAP, "sma/run.py"), pid, "--tier", tier],
                               capture_output=True, text=True, env=env, cwd=SNAP)
            first = ""
            for l in r.stdout.splitlines():
                if l.startswith(("  REFUTED", "ANALYSIS-ERROR")):
                    first = l.strip()[:260]
                    break
            out[pid] = (r.returncode, first)
        return seed, out
    finally:
        shutil.rmtree(tmp, ignore_errors=True)


with ThreadPoolExecutor(4) as ex:
    results = dict(ex.map(one, seeds))
matrix = {}
for seed in seeds:
    res = results[seed]
    fired = [p for p, (rc, _) in res.items() if rc == 1]
    errs = [p for p, (rc, _) in res.items() if rc not in (0, 1)]
    own = seed.split("-")[0]
    status = "FALSE-ALARM" if fired else ("ANALYSIS-ERROR" if errs else "silent")
    print(f"{seed:45s} {status:28s} fired={','.join(fired) or '-'} err={','.join(errs) or '-'}")
    for p in fired[:2] + errs[:1]:
        print(f"      {p}: {res[p][1]}")
    matrix[seed] = {"fired": fired, "errors": errs, "detail": {p: res[p][1] for p in fired + errs}}
# partial runs are merged into the stored matrix; the table is always rewritten from it
mpath = os.path.join(VERIF, "refactors", "MATRIX.json")
try:
    stored = json.load(open(mpath))
except Exception:
    stored = {}
stored.update(matrix)
all_seeds = sorted(d for d in os.listdir(os.path.join(VERIF, "refactors")) if os.path.isdir(os.path.join(VERIF, "refactors", d)))
stored = {k: v for k, v in stored.items() if k in all_seeds}
json.dump(stored, open(mpath, "w"), indent=1)
with open(os.path.join(VERIF, "refactors", "MATRIX.md"), "w") as fh:
    fh.write("# Behaviour-preserving refactorings x checks (quick tier): every check must stay silent\n\n"
             "(last result per refactoring)\n\n| refactoring | checks that fire (exit 1) | analysis errors (exit 2) |\n|---|---|---|\n")
    for seed in all_seeds:
        if seed in stored:
            m = stored[seed]
            fh.write(f"| {seed} | {', '.join(m['fired']) or '-'} | {', '.join(m['errors']) or '-'} |\n")
