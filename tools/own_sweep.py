#!/venv/bin/python
"""For every seeded change, run the check of the property it was written for on a scratch copy
(`tools/try_patch.py`), print the ones it does not report, and record the result in
seeded/MATRIX.json for changes that have no full row yet (marked "own check only").
usage: own_sweep.py [jobs] [prefix ...]"""
import json, os, subprocess, sys
from concurrent.futures import ThreadPoolExecutor

VERIF = os.path.dirname(os.path.dirname(os.path.abspath(__file__)))
args = sys.argv[1:]
jobs = int(args.pop(0)) if args and args[0].isdigit() else 3
seeds = sorted(d for d in os.listdir(os.path.join(VERIF, "seeded"))
               if os.path.isdir(os.path.join(VERIF, "seeded", d)) and d.startswith("C"))
if args:
    seeds = [s for s in seeds if any(s.startswith(a) for a in args)]


def one(seed):
    pid = seed[:3]
    r = subprocess.run([os.path.join(VERIF, "tools/try_patch.py"), os.path.join(VERIF, "seeded", seed, "patch.diff"), pid],
                       capture_output=True, text=True, cwd=VERIF)
    line = [l for l in r.stdout.splitlines() if l.startswith(pid + " rc=")]
    rc = int(line[-1].split("rc=")[1].split()[0]) if line else 3
    return seed, rc, (line[-1][:300] if line else r.stdout[-300:])


with ThreadPoolExecutor(jobs) as ex:
    res = list(ex.map(one, seeds))
mpath = os.path.join(VERIF, "seeded", "MATRIX.json")
try:
    stored = json.load(open(mpath))
except Exception:
    stored = {}
caught = 0
for seed, rc, line in res:
    pid = seed[:3]
    caught += rc == 1
    if rc != 1:
        print(f"{seed}: {line}")
    if seed not in stored or stored[seed].get("own_check_only"):
        stored[seed] = {"fired": [pid] if rc == 1 else [], "errors": [pid] if rc not in (0, 1) else [],
                        "detail": {pid: line}, "own_check_only": True}
json.dump(stored, open(mpath, "w"), indent=1)
print(f"reported by the check of their own property: {caught} of {len(res)}")
import subprocess, sys; subprocess.run([os.path.join(VERIF, "tools/write_matrix_md.py")])
