#!/bin/bash
# run every check (quick tier by default) on /repo and print one status line each
tier=${1:-quick}
cd "$(dirname "$0")/.."
for i in 01 02 03 04 05 06 07 08 09 10 11 12 13 14 15 16 17 18 19; do
  /venv/bin/python sma/run.py C$i --tier $tier 2>&1 | grep "^\[C\|^ANALYSIS\|^VIOLATION" | cut -c1-300
done
