#!/venv/bin/python
"""Regenerate MANIFEST.json from the META of every check module under sma/checks."""
import glob, importlib, json, os, sys

VERIF = os.path.dirname(os.path.dirname(os.path.abspath(__file__)))
sys.path.insert(0, VERIF)

PY = "/venv/bin/python"
props = [json.loads(l) for l in open(os.path.join(VERIF, "properties.jsonl"))]
checks, na = [], []
for p in props:
    pid = p["id"]
    path = os.path.join(VERIF, "sma", "checks", pid.lower() + ".py")
    if not os.path.exists(path):
        na.append({"property_id": pid, "reason": "check not built yet in this session (planned: see DESIGN.md section 3)"})
        continue
    mod = importlib.import_module(f"sma.checks.{pid.lower()}")
    m = mod.META
    if m.get("not_applicable"):
        na.append({"property_id": pid, "reason": m["not_applicable"]})
        continue
    checks.append({
        "property_id": pid,
        "quick_cmd": f"{PY} sma/run.py {pid} --tier quick",
        "thorough_cmd": f"{PY} sma/run.py {pid} --tier thorough",
        "evidence_file": f"/verif/evidence/{pid}.json",
        "replay_cmd_template": f"{PY} sma/run.py {pid} --replay {{path}}",
        "engine": "sma",
        "level_claimed": {
            "category": m["level"],
            "text": m.get("claim", m["explanation"]),
            "design_ref": f"DESIGN.md section 3, {pid}",
        },
        "level_note": m.get("level_note", "trusted: python ast; spec tables under sma/spec; library semantics as documented"),
        "technique": m.get("technique", "static analysis (ast-based)"),
    })
manifest = {
    "version": 1,
    "setup_cmd": f"{PY} -m compileall -q sma tools && {PY} tools/selfcheck.py",
    "hooks": {
        "guard": "SYM_METANET_VERIF",
        "enable": "no hooks: the analyses read source only; nothing in /repo is instrumented",
        "baseline_off_cmd": "cd /repo && /venv/bin/python -m pytest -ra -q -p no:cacheprovider --timeout=900 --continue-on-collection-errors",
        "source_commits": [],
        "add_only": True,
    },
    "engines": [{
        "name": "sma",
        "path": "/verif/sma",
        "serves_properties": [c["property_id"] for c in checks],
        "kind_free_text": "repository-specific static analyses over the python ast of /repo/src/sym_metanet: effect/facet analysis, call-shape binding against installed library source, guard truth tables, symbolic normal forms of engine primitives, abstract interpretation of the element layer over local-topology classes",
    }],
    "checks": checks,
    "not_applicable": na,
    "notes": "exit 0 holds / 1 VIOLATION / 2 ANALYSIS-ERROR (fail-closed). Fix commits in /repo are listed as fixed: in known_findings.jsonl.",
}
json.dump(manifest, open(os.path.join(VERIF, "MANIFEST.json"), "w"), indent=1)
print(f"{len(checks)} checks, {len(na)} not applicable")
